#!/venv/bin/python
"""
Monitor audit ("break it"): apply each deliberate property-breaking change to a scratch copy of /repo,
run the owning check against the copy (VERIF_REPO) and record whether it fired.

usage: audit/audit.py [--only C13[,C12]] [--mutant name] [--tier quick] [--jobs 4]
Not a MANIFEST check; results are written to audit/results.json and summarised in DESIGN.md.
"""

import argparse
import concurrent.futures
import json
import os
import shutil
import subprocess
import sys
import tempfile
import time

HERE = os.path.dirname(os.path.abspath(__file__))
VERIF = os.path.dirname(HERE)
sys.path.insert(0, HERE)
from mutants import MUTANTS  # noqa


def run_mutant(mutant, tier, seeded_dir=None):
    scratch = tempfile.mkdtemp(prefix="verif-audit-")
    repo = os.path.join(scratch, "repo")
    t0 = time.time()
    try:
        subprocess.run(["rsync", "-a", "--exclude", ".git", "--exclude", "__pycache__", "/repo/", repo + "/"], check=True)
        if "patch" in mutant:
            result = subprocess.run(["patch", "-p1", "-d", repo, "-i", os.path.join(VERIF, mutant["patch"])],
                                    capture_output=True, text=True)
            if result.returncode != 0:
                return {"name": mutant["name"], "property": mutant["property"], "status": "patch-failed", "detail": result.stdout[-500:]}
        else:
            path = os.path.join(repo, mutant["file"])
            source = open(path).read()
            if source.count(mutant["old"]) != 1:
                return {"name": mutant["name"], "property": mutant["property"], "status": "anchor-not-unique",
                        "detail": f"{source.count(mutant['old'])} occurrences"}
            open(path, "w").write(source.replace(mutant["old"], mutant["new"]))
        env = dict(os.environ, VERIF_REPO=repo, VERIF_AUDIT="1", VERIF_OUT=os.path.join(scratch, "out"), VERIF_JOBS=os.environ.get("VERIF_JOBS", "8"))
        fired = {}
        for prop in mutant.get("checks", [mutant["property"]]):
            proc = subprocess.run([os.path.join(VERIF, "check"), prop, "--tier", tier],
                                  capture_output=True, text=True, env=env, timeout=7200)
            lines = [line for line in proc.stdout.splitlines() if line.startswith("VIOLATION")]
            mech = [line.strip() for line in proc.stdout.splitlines() if line.strip().startswith("mechanism:")]
            fired[prop] = {"exit": proc.returncode, "violations": len(lines), "mechanisms": sorted(set(mech))[:5]}
        caught = any(v["exit"] == 1 and v["violations"] > 0 for v in fired.values())
        return {"name": mutant["name"], "property": mutant["property"], "status": "caught" if caught else "MISSED",
                "fired": fired, "wall_s": round(time.time() - t0, 1), "note": mutant.get("note", "")}
    finally:
        shutil.rmtree(scratch, ignore_errors=True)


def main():
    parser = argparse.ArgumentParser()
    parser.add_argument("--only", default="")
    parser.add_argument("--mutant", default="")
    parser.add_argument("--tier", default="quick")
    parser.add_argument("--jobs", type=int, default=4)
    args = parser.parse_args()
    selected = [m for m in MUTANTS if (not args.only or m["property"] in args.only.split(","))
                and (not args.mutant or m["name"] == args.mutant)]
    results = []
    with concurrent.futures.ThreadPoolExecutor(max_workers=args.jobs) as pool:
        for result in pool.map(lambda m: run_mutant(m, args.tier), selected):
            print(json.dumps(result)[:600], flush=True)
            results.append(result)
    path = os.path.join(HERE, "results.json")
    previous = {}
    if os.path.exists(path):
        previous = {r["name"]: r for r in json.load(open(path))}
    for result in results:
        previous[result["name"]] = result
    # evidence files were rewritten by the audited (mutated) runs: they must be regenerated on the real tree
    json.dump(sorted(previous.values(), key=lambda r: (r["property"], r["name"])), open(path, "w"), indent=1)
    missed = [r["name"] for r in results if r["status"] != "caught"]
    print(f"{len(results) - len(missed)}/{len(results)} caught; missed: {missed}")


if __name__ == "__main__":
    main()
