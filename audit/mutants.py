"""Deliberate property-breaking changes (single-hunk, realistic) used to audit the monitors."""

MUTANTS = []


def mutant(name, prop, file, old, new, note="", checks=None):
    entry = {"name": name, "property": prop, "file": file, "old": old, "new": new, "note": note}
    if checks:
        entry["checks"] = checks
    MUTANTS.append(entry)


POOL = "avocado_i2n/states/pool.py"
SETUP = "avocado_i2n/states/setup.py"
NODE = "avocado_i2n/cartgraph/node.py"
GRAPH = "avocado_i2n/cartgraph/graph.py"
QCOW2 = "avocado_i2n/states/qcow2.py"
RAMFILE = "avocado_i2n/states/ramfile.py"
NETCONFIG = "avocado_i2n/vmnet/netconfig.py"
NETWORK = "avocado_i2n/vmnet/network.py"
TUNNEL = "avocado_i2n/vmnet/tunnel.py"

# ---- C13 -------------------------------------------------------------------------------------------
mutant("c13-get-scope-filter-inverted", "C13", POOL,
       '''            source_params["get_location"] = source

            # filtering stage where we may disallow certain data transport
            source_scope = cls.get_source_scope(source_path, source_params, params)
            if source_scope == "own" or source_scope not in scopes:''',
       '''            source_params["get_location"] = source

            # filtering stage where we may disallow certain data transport
            source_scope = cls.get_source_scope(source_path, source_params, params)
            if source_scope == "own" or source_scope in scopes:''')
mutant("c13-proximity-order-dropped", "C13", POOL,
       '''return sorted(params.objects(f"{do}_location"), key=proximity, reverse=True)''',
       '''return sorted(params.objects(f"{do}_location"), key=proximity)''')
mutant("c13-set-refusal-removed", "C13", POOL,
       '''            if not local_state_exists:
                raise RuntimeError("Updating state pool requires local states")''',
       '''            if not local_state_exists:
                logging.warning("Updating state pool requires local states")''')
mutant("c13-get-break-removed", "C13", POOL,
       '''                if not cache_valid:
                    cls.transport.get(source_params, object)
            break''',
       '''                if not cache_valid:
                    cls.transport.get(source_params, object)''')
mutant("c13-swarm-classified-shared", "C13", POOL,
       '''        elif own_params["nets_host"] != source_params["nets_host"]:
            return "swarm"''',
       '''        elif own_params["nets_host"] != source_params["nets_host"]:
            return "shared"''')
mutant("c13-compare-chain-first-image-only", "C13", POOL,
       '''                if not cls.ops.compare(cache_path, pool_path, image_params):
                    logging.warning(
                        f"The image {image_name} has different {next_state} between cache {cache_path} and pool {pool_path}"
                    )
                    return False''',
       '''                if not cls.ops.compare(cache_path, pool_path, image_params):
                    logging.warning(
                        f"The image {image_name} has different {next_state} between cache {cache_path} and pool {pool_path}"
                    )
                    return False
                break''')
mutant("c13-compare-chain-stops-after-first-state", "C13", POOL,
       '''            # comparison of state chain is not yet complete if the state has backing dependencies
            next_state = cls.get_dependency(next_state, params)''',
       '''            # comparison of state chain is not yet complete if the state has backing dependencies
            next_state = ""''')
mutant("c13-root-set-refusal-removed", "C13", POOL,
       '''            if not local_root_exists:
                raise RuntimeError("Updating state pool requires local root states")''',
       '''            if not local_root_exists:
                logging.warning("Updating state pool requires local root states")''')
mutant("c13-unset-skips-after-first-mirror", "C13", POOL,
       '''            logging.debug(f"Choosing {source} as the unset source to use")

            cls.transport.unset(source_params, object)''',
       '''            logging.debug(f"Choosing {source} as the unset source to use")

            cls.transport.unset(source_params, object)
            break''')
mutant("c13-show-ignores-own-scope", "C13", POOL,
       '''        if "own" in scopes:
            cache_states = cls._show(params, object)
        else:
            cache_states = []''',
       '''        cache_states = cls._show(params, object)''')

# ---- C12 -------------------------------------------------------------------------------------------
mutant("c12-get-ignore-reuse-swapped", "C12", SETUP,
       '''        elif state_exists and "r" == action_if_exists:
            pass
        elif state_exists and "i" == action_if_exists:
            logging.warning("Ignoring present snapshot for setup")
            continue''',
       '''        elif state_exists and "i" == action_if_exists:
            pass
        elif state_exists and "r" == action_if_exists:
            logging.warning("Ignoring present snapshot for setup")
            continue''')
mutant("c12-unset-abort-continues", "C12", SETUP,
       '''            logging.info("Aborting because of missing snapshot for final cleanup")
            raise exceptions.TestAbortError(''',
       '''            logging.info("Aborting because of missing snapshot for final cleanup")
            continue
            raise exceptions.TestAbortError(''')
mutant("c12-readonly-check-removed-in-set", "C12", SETUP,
       '''            continue

        # if the state is not defined skip (leaf tests that are no setup)
        if not state_params.get("set_state"):''',
       '''            pass

        # if the state is not defined skip (leaf tests that are no setup)
        if not state_params.get("set_state"):''')
mutant("c12-set-force-skips-unset", "C12", SETUP,
       '''                    logging.info("Removing the already existing snapshot")
                    state_backend.unset(state_params, state_object)''',
       '''                    logging.info("Removing the already existing snapshot")''')
mutant("c12-invalid-set-policy-accepted", "C12", SETUP,
       '''        elif not state_exists:
            raise exceptions.TestError(
                "Invalid policy %s: The end action on missing state can be "
                "either of 'abort', 'force'." % state_params["set_mode"]
            )''',
       '''        elif not state_exists:
            logging.warning("Invalid policy")''')
mutant("c12-pop-keeps-state", "C12", SETUP,
       '''        state_params["unset_mode"] = state_params.get("pop_mode", "fa")''',
       '''        state_params["unset_mode"] = state_params.get("pop_mode", "ra")''')

# ---- C17 -------------------------------------------------------------------------------------------
mutant("c17-union-instead-of-intersection", "C17", QCOW2,
       '''                states = states.intersection(image_states)''',
       '''                states = states.union(image_states)''')
mutant("c17-ramfile-ignores-later-images", "C17", RAMFILE,
       '''                images_states = images_states.intersection(image_snapshots)''',
       '''                pass''')
mutant("c17-on-regex-accepts-zero", "C17", QCOW2,
       '''    r"^\\d+\\s+([\\w\\.-]+)\\s*(?!0 B)(\\d+e?[\\-\\+]?[\\.\\d]* \\w+)\\s+\\d{4}-\\d\\d-\\d\\d",''',
       '''    r"^\\d+\\s+([\\w\\.-]+)\\s*(\\d+e?[\\-\\+]?[\\.\\d]* \\w+)\\s+\\d{4}-\\d\\d-\\d\\d",''')
mutant("c17-tag-regex-drops-dash", "C17", QCOW2,
       '''    r"^\\d+\\s+([\\w\\.-]+)\\s*(0 B)\\s+\\d{4}-\\d\\d-\\d\\d", flags=re.MULTILINE''',
       '''    r"^\\d+\\s+([\\w\\.]+)\\s*(0 B)\\s+\\d{4}-\\d\\d-\\d\\d", flags=re.MULTILINE''')

# ---- C16 -------------------------------------------------------------------------------------------
mutant("c16-get-without-subtree", "C16", NODE,
       '''                for node in current.traverse():
                    if node.end_test_node is not None:
                        test_nodes.append(node.end_test_node)''',
       '''                if current.end_test_node is not None:
                    test_nodes.append(current.end_test_node)''')
mutant("c16-register-keyed-by-prefix", "C16", NODE,
       '''        if node.bridged_form not in self._registry:
            self._registry[node.bridged_form] = {}''',
       '''        if node.bridged_form not in self._registry:
            self._registry = {k: v for k, v in self._registry.items() if len(v) < 3}
            self._registry[node.bridged_form] = {}''')
mutant("c16-contains-first-trie-only", "C16", NODE,
       '''            else:
                return True
        return False''',
       '''            else:
                return True
            break
        return False''')
mutant("c16-bridge-one-register-not-shared", "C16", NODE,
       '''            self._dropped_cleanup_nodes = test_node._dropped_cleanup_nodes''',
       '''            pass''')

# ---- C18 -------------------------------------------------------------------------------------------
mutant("c18-range-slot-not-marked", "C18", NETCONFIG,
       '''            if self.range[val] is False:
                self.range[val] = True
                new_address = val''',
       '''            if self.range[val] is False:
                new_address = val''')
mutant("c18-mask-bit-strips-both", "C18", NETCONFIG,
       '''            return str(len(binary_str.rstrip("0")))''',
       '''            return str(len(binary_str.strip("0")) if "1" in binary_str else 0)''',
       note="equivalent for contiguous masks: expected to be MISSED (kept as a control)")
mutant("c18-translate-uses-nat-host-part", "C18", NETCONFIG,
       '''        target_part = int(target_iface.network.network_address)''',
       '''        target_part = int(target_iface.ip)''')
mutant("c18-reattach-keeps-old-registration", "C18", NETWORK,
       '''        del interface.netconfig.interfaces[interface.ip]
        # attach to the new network - with validation and proper attribute update''',
       '''        # attach to the new network - with validation and proper attribute update''')
mutant("c18-netconfig-indexed-by-interface-ip", "C18", NETWORK,
       '''                self.netconfigs[netconfig.net_ip] = netconfig''',
       '''                self.netconfigs[interface.ip] = netconfig''')

# ---- C19 -------------------------------------------------------------------------------------------
mutant("c19-psk-ids-not-swapped", "C19", TUNNEL,
       '''            params["vpnconn_psk_foreign_id_%s_%s" % (name, node2.name)] = left_id
''',
       '''            params["vpnconn_psk_foreign_id_%s_%s" % (name, node2.name)] = right_id
''')
mutant("c19-right-peer-points-to-itself", "C19", TUNNEL,
       '''        params["vpnconn_peer_ip_%s_%s" % (name, node2.name)] = interface1.ip''',
       '''        params["vpnconn_peer_ip_%s_%s" % (name, node2.name)] = interface2.ip''')
mutant("c19-externalip-counterpart-wrong", "C19", TUNNEL,
       '''        elif left_remote["type"] == "externalip":
            right_local["type"] = "internetip"''',
       '''        elif left_remote["type"] == "externalip":
            right_local["type"] = "nic"''')
mutant("c19-connects-order-dependent", "C19", TUNNEL,
       '''        elif on_the_right(node1) and on_the_left(node2):
            return True''',
       '''        elif on_the_right(node1) and node2 == self.left:
            return True''')
mutant("c19-invalid-peer-accepted", "C19", TUNNEL,
       '''            raise ValueError(
                "Invalid choice of left peer type '%s', must be one of"
                " 'ip', 'dynip'" % peer1["type"]
            )''',
       '''            interface2 = node2.interfaces[
                node2.params[peer1.get("nic", "internet_nic")]
            ]''')

# ---- C11 -------------------------------------------------------------------------------------------
CMD = "avocado_i2n/cmd_parser.py"
mutant("c11-default-added-unconditionally", "C11", CMD,
       '''    if use_tests_default:
        default = tests_params.get("default_only", "all")''',
       '''    if True:
        default = tests_params.get("default_only", "all")''')
mutant("c11-no-written-as-only", "C11", CMD,
       '''            tests_str += "%s %s\\n" % (key, value)''',
       '''            tests_str += "only %s\\n" % value''')
mutant("c11-malformed-token-skipped", "C11", CMD,
       '''        if re_param is None:
            raise ValueError(''',
       '''        if re_param is None:
            continue
            raise ValueError(''')
mutant("c11-comma-not-translated", "C11", CMD,
       '''            # NOTE: comma on the command line is space in a config file
            value = value.replace(",", " ")
            param_dict[key] = value''',
       '''            # NOTE: comma on the command line is space in a config file
            param_dict[key] = value''')
mutant("c11-vm-restriction-overwritten-not-stacked", "C11", CMD,
       '''                        vm_strs[vm_name] += vm_str''',
       '''                        vm_strs[vm_name] = vm_str''')
mutant("c11-unknown-vm-accepted", "C11", CMD,
       '''                if vm_name not in available_vms:
                    raise ValueError(''',
       '''                if vm_name not in available_vms and False:
                    raise ValueError(''')
mutant("c11-primary-detection-misses-dotted", "C11", CMD,
       '''            for variant in re.split(r",|\\.|\\.\\.", value):''',
       '''            for variant in [value]:''')
mutant("c11-nets-conflict-check-dropped", "C11", CMD,
       '''            if nets_str != "":
                raise ValueError(''',
       '''            if nets_str != "" and False:
                raise ValueError(''')
mutant("c11-empty-vm-restriction-gets-default", "C11", CMD,
       '''                        use_vms_default[vm_name] = False''',
       '''                        use_vms_default[vm_name] = not value''')

# ---- C14 -------------------------------------------------------------------------------------------
mutant("c14-locks-skipped", "C14", POOL, '''SKIP_LOCKS = False''', '''SKIP_LOCKS = True''')
mutant("c14-unlock-before-critical-section", "C14", POOL,
       '''        try:
            yield fd
        finally:
            fcntl.lockf(fd, fcntl.LOCK_UN)''',
       '''        fcntl.lockf(fd, fcntl.LOCK_UN)
        yield fd''')
mutant("c14-timeout-proceeds-unlocked", "C14", POOL,
       '''        else:
            raise RuntimeError(
                f"Waiting to acquire {lockfile} took more than "
                f"the allowed {timeout} seconds"
            )''',
       '''        else:
            logging.warning(
                f"Waiting to acquire {lockfile} took more than "
                f"the allowed {timeout} seconds"
            )''')
mutant("c14-download-compare-skipped", "C14", POOL,
       '''            if TransferOps.compare_local(cache_path, pool_path, params):
                logging.info(f"Skip download of an already available {cache_path}")
                return''',
       '''            if False:
                logging.info(f"Skip download of an already available {cache_path}")
                return''')
mutant("c14-link-replaces-data", "C14", POOL,
       '''            if not os.path.islink(cache_path) and os.path.exists(cache_path):
                raise RuntimeError(
                    f"Cannot link to {pool_path}, {cache_path} data exists"
                )''',
       '''            if not os.path.islink(cache_path) and os.path.exists(cache_path):
                os.unlink(cache_path)''')
mutant("c14-link-uploaded", "C14", POOL,
       '''        if os.path.islink(cache_path):
            raise ValueError("Cannot upload a symlink to its destination")
        else:''',
       '''        if False:
            raise ValueError("Cannot upload a symlink to its destination")
        else:''')
mutant("c14-per-process-lockfile", "C14", POOL,
       '''    lockfile = resource_path + ".lock"''',
       '''    lockfile = resource_path + f".{os.getpid()}.lock"''')
mutant("c14-delete-outside-lock", "C14", POOL,
       '''        with image_lock(pool_path, update_timeout) as lock:
            os.unlink(pool_path)''',
       '''        with image_lock(pool_path, update_timeout) as lock:
            pass
        os.unlink(pool_path)''')
mutant("c14-upload-compare-before-lock", "C14", POOL,
       '''        with image_lock(pool_path, update_timeout) as lock:
            if TransferOps.compare_local(cache_path, pool_path, params):
                logging.info(f"Skip upload of an already available {cache_path}")
                return
            os.makedirs''',
       '''        if TransferOps.compare_local(cache_path, pool_path, params):
            logging.info(f"Skip upload of an already available {cache_path}")
            return
        with image_lock(pool_path, update_timeout) as lock:
            os.makedirs''',
       note="check-then-act race: compare outside the critical section")
mutant("c14-blocking-lock-ignores-timeout", "C14", POOL,
       '''                fcntl.lockf(fd, fcntl.LOCK_EX | fcntl.LOCK_NB)''',
       '''                fcntl.lockf(fd, fcntl.LOCK_EX)''',
       note="waits forever instead of raising after the timeout")
