"""Deliberate property-breaking changes (single-hunk, realistic) used to audit the monitors."""

MUTANTS = []


def mutant(name, prop, file, old, new, note="", checks=None):
    entry = {"name": name, "property": prop, "file": file, "old": old, "new": new, "note": note}
    if checks:
        entry["checks"] = checks
    MUTANTS.append(entry)


POOL = "avocado_i2n/states/pool.py"
SETUP = "avocado_i2n/states/setup.py"
NODE = "avocado_i2n/cartgraph/node.py"
GRAPH = "avocado_i2n/cartgraph/graph.py"
QCOW2 = "avocado_i2n/states/qcow2.py"
RAMFILE = "avocado_i2n/states/ramfile.py"
NETCONFIG = "avocado_i2n/vmnet/netconfig.py"
NETWORK = "avocado_i2n/vmnet/network.py"
TUNNEL = "avocado_i2n/vmnet/tunnel.py"

# ---- C13 -------------------------------------------------------------------------------------------
mutant("c13-get-scope-filter-inverted", "C13", POOL,
       '''            source_params["get_location"] = source

            # filtering stage where we may disallow certain data transport
            source_scope = cls.get_source_scope(source_path, source_params, params)
            if source_scope == "own" or source_scope not in scopes:''',
       '''            source_params["get_location"] = source

            # filtering stage where we may disallow certain data transport
            source_scope = cls.get_source_scope(source_path, source_params, params)
            if source_scope == "own" or source_scope in scopes:''')
mutant("c13-proximity-order-dropped", "C13", POOL,
       '''return sorted(params.objects(f"{do}_location"), key=proximity, reverse=True)''',
       '''return sorted(params.objects(f"{do}_location"), key=proximity)''')
mutant("c13-set-refusal-removed", "C13", POOL,
       '''            if not local_state_exists:
                raise RuntimeError("Updating state pool requires local states")''',
       '''            if not local_state_exists:
                logging.warning("Updating state pool requires local states")''')
mutant("c13-get-break-removed", "C13", POOL,
       '''                if not cache_valid:
                    cls.transport.get(source_params, object)
            break''',
       '''                if not cache_valid:
                    cls.transport.get(source_params, object)''')
mutant("c13-swarm-classified-shared", "C13", POOL,
       '''        elif own_params["nets_host"] != source_params["nets_host"]:
            return "swarm"''',
       '''        elif own_params["nets_host"] != source_params["nets_host"]:
            return "shared"''')
mutant("c13-compare-chain-first-image-only", "C13", POOL,
       '''                if not cls.ops.compare(cache_path, pool_path, image_params):
                    logging.warning(
                        f"The image {image_name} has different {next_state} between cache {cache_path} and pool {pool_path}"
                    )
                    return False''',
       '''                if not cls.ops.compare(cache_path, pool_path, image_params):
                    logging.warning(
                        f"The image {image_name} has different {next_state} between cache {cache_path} and pool {pool_path}"
                    )
                    return False
                break''')
mutant("c13-compare-chain-stops-after-first-state", "C13", POOL,
       '''            # comparison of state chain is not yet complete if the state has backing dependencies
            next_state = cls.get_dependency(next_state, params)''',
       '''            # comparison of state chain is not yet complete if the state has backing dependencies
            next_state = ""''')
mutant("c13-root-set-refusal-removed", "C13", POOL,
       '''            if not local_root_exists:
                raise RuntimeError("Updating state pool requires local root states")''',
       '''            if not local_root_exists:
                logging.warning("Updating state pool requires local root states")''')
mutant("c13-unset-skips-after-first-mirror", "C13", POOL,
       '''            logging.debug(f"Choosing {source} as the unset source to use")

            cls.transport.unset(source_params, object)''',
       '''            logging.debug(f"Choosing {source} as the unset source to use")

            cls.transport.unset(source_params, object)
            break''')
mutant("c13-show-ignores-own-scope", "C13", POOL,
       '''        if "own" in scopes:
            cache_states = cls._show(params, object)
        else:
            cache_states = []''',
       '''        cache_states = cls._show(params, object)''')

# ---- C12 -------------------------------------------------------------------------------------------
mutant("c12-get-ignore-reuse-swapped", "C12", SETUP,
       '''        elif state_exists and "r" == action_if_exists:
            pass
        elif state_exists and "i" == action_if_exists:
            logging.warning("Ignoring present snapshot for setup")
            continue''',
       '''        elif state_exists and "i" == action_if_exists:
            pass
        elif state_exists and "r" == action_if_exists:
            logging.warning("Ignoring present snapshot for setup")
            continue''')
mutant("c12-unset-abort-continues", "C12", SETUP,
       '''            logging.info("Aborting because of missing snapshot for final cleanup")
            raise exceptions.TestAbortError(''',
       '''            logging.info("Aborting because of missing snapshot for final cleanup")
            continue
            raise exceptions.TestAbortError(''')
mutant("c12-readonly-check-removed-in-set", "C12", SETUP,
       '''            continue

        # if the state is not defined skip (leaf tests that are no setup)
        if not state_params.get("set_state"):''',
       '''            pass

        # if the state is not defined skip (leaf tests that are no setup)
        if not state_params.get("set_state"):''')
mutant("c12-set-force-skips-unset", "C12", SETUP,
       '''                    logging.info("Removing the already existing snapshot")
                    state_backend.unset(state_params, state_object)''',
       '''                    logging.info("Removing the already existing snapshot")''')
mutant("c12-invalid-set-policy-accepted", "C12", SETUP,
       '''        elif not state_exists:
            raise exceptions.TestError(
                "Invalid policy %s: The end action on missing state can be "
                "either of 'abort', 'force'." % state_params["set_mode"]
            )''',
       '''        elif not state_exists:
            logging.warning("Invalid policy")''')
mutant("c12-pop-keeps-state", "C12", SETUP,
       '''        state_params["unset_mode"] = state_params.get("pop_mode", "fa")''',
       '''        state_params["unset_mode"] = state_params.get("pop_mode", "ra")''')

# ---- C17 -------------------------------------------------------------------------------------------
mutant("c17-union-instead-of-intersection", "C17", QCOW2,
       '''                states = states.intersection(image_states)''',
       '''                states = states.union(image_states)''')
mutant("c17-ramfile-ignores-later-images", "C17", RAMFILE,
       '''                images_states = images_states.intersection(image_snapshots)''',
       '''                pass''')
mutant("c17-on-regex-accepts-zero", "C17", QCOW2,
       '''    r"^\\d+\\s+([\\w\\.-]+)\\s*(?!0 B)(\\d+e?[\\-\\+]?[\\.\\d]* \\w+)\\s+\\d{4}-\\d\\d-\\d\\d",''',
       '''    r"^\\d+\\s+([\\w\\.-]+)\\s*(\\d+e?[\\-\\+]?[\\.\\d]* \\w+)\\s+\\d{4}-\\d\\d-\\d\\d",''')
mutant("c17-tag-regex-drops-dash", "C17", QCOW2,
       '''    r"^\\d+\\s+([\\w\\.-]+)\\s*(0 B)\\s+\\d{4}-\\d\\d-\\d\\d", flags=re.MULTILINE''',
       '''    r"^\\d+\\s+([\\w\\.]+)\\s*(0 B)\\s+\\d{4}-\\d\\d-\\d\\d", flags=re.MULTILINE''')

# ---- C16 -------------------------------------------------------------------------------------------
mutant("c16-get-without-subtree", "C16", NODE,
       '''                for node in current.traverse():
                    if node.end_test_node is not None:
                        test_nodes.append(node.end_test_node)''',
       '''                if current.end_test_node is not None:
                    test_nodes.append(current.end_test_node)''')
mutant("c16-register-keyed-by-prefix", "C16", NODE,
       '''        if node.bridged_form not in self._registry:
            self._registry[node.bridged_form] = {}''',
       '''        if node.bridged_form not in self._registry:
            self._registry = {k: v for k, v in self._registry.items() if len(v) < 3}
            self._registry[node.bridged_form] = {}''')
mutant("c16-contains-first-trie-only", "C16", NODE,
       '''            else:
                return True
        return False''',
       '''            else:
                return True
            break
        return False''')
mutant("c16-bridge-one-register-not-shared", "C16", NODE,
       '''            self._dropped_cleanup_nodes = test_node._dropped_cleanup_nodes''',
       '''            pass''')

# ---- C18 -------------------------------------------------------------------------------------------
mutant("c18-range-slot-not-marked", "C18", NETCONFIG,
       '''            if self.range[val] is False:
                self.range[val] = True
                new_address = val''',
       '''            if self.range[val] is False:
                new_address = val''')
mutant("c18-mask-bit-strips-both", "C18", NETCONFIG,
       '''            return str(len(binary_str.rstrip("0")))''',
       '''            return str(len(binary_str.strip("0")) if "1" in binary_str else 0)''',
       note="equivalent for contiguous masks: expected to be MISSED (kept as a control)")
mutant("c18-translate-uses-nat-host-part", "C18", NETCONFIG,
       '''        target_part = int(target_iface.network.network_address)''',
       '''        target_part = int(target_iface.ip)''')
mutant("c18-reattach-keeps-old-registration", "C18", NETWORK,
       '''        del interface.netconfig.interfaces[interface.ip]
        # attach to the new network - with validation and proper attribute update''',
       '''        # attach to the new network - with validation and proper attribute update''')
mutant("c18-netconfig-indexed-by-interface-ip", "C18", NETWORK,
       '''                self.netconfigs[netconfig.net_ip] = netconfig''',
       '''                self.netconfigs[interface.ip] = netconfig''')

# ---- C19 -------------------------------------------------------------------------------------------
mutant("c19-psk-ids-not-swapped", "C19", TUNNEL,
       '''            params["vpnconn_psk_foreign_id_%s_%s" % (name, node2.name)] = left_id
''',
       '''            params["vpnconn_psk_foreign_id_%s_%s" % (name, node2.name)] = right_id
''')
mutant("c19-right-peer-points-to-itself", "C19", TUNNEL,
       '''        params["vpnconn_peer_ip_%s_%s" % (name, node2.name)] = interface1.ip''',
       '''        params["vpnconn_peer_ip_%s_%s" % (name, node2.name)] = interface2.ip''')
mutant("c19-externalip-counterpart-wrong", "C19", TUNNEL,
       '''        elif left_remote["type"] == "externalip":
            right_local["type"] = "internetip"''',
       '''        elif left_remote["type"] == "externalip":
            right_local["type"] = "nic"''')
mutant("c19-connects-order-dependent", "C19", TUNNEL,
       '''        elif on_the_right(node1) and on_the_left(node2):
            return True''',
       '''        elif on_the_right(node1) and node2 == self.left:
            return True''')
mutant("c19-invalid-peer-accepted", "C19", TUNNEL,
       '''            raise ValueError(
                "Invalid choice of left peer type '%s', must be one of"
                " 'ip', 'dynip'" % peer1["type"]
            )''',
       '''            interface2 = node2.interfaces[
                node2.params[peer1.get("nic", "internet_nic")]
            ]''')

# ---- C11 -------------------------------------------------------------------------------------------
CMD = "avocado_i2n/cmd_parser.py"
mutant("c11-default-added-unconditionally", "C11", CMD,
       '''    if use_tests_default:
        default = tests_params.get("default_only", "all")''',
       '''    if True:
        default = tests_params.get("default_only", "all")''')
mutant("c11-no-written-as-only", "C11", CMD,
       '''            tests_str += "%s %s\\n" % (key, value)''',
       '''            tests_str += "only %s\\n" % value''')
mutant("c11-malformed-token-skipped", "C11", CMD,
       '''        if re_param is None:
            raise ValueError(''',
       '''        if re_param is None:
            continue
            raise ValueError(''')
mutant("c11-comma-not-translated", "C11", CMD,
       '''            # NOTE: comma on the command line is space in a config file
            value = value.replace(",", " ")
            param_dict[key] = value''',
       '''            # NOTE: comma on the command line is space in a config file
            param_dict[key] = value''')
mutant("c11-vm-restriction-overwritten-not-stacked", "C11", CMD,
       '''                        vm_strs[vm_name] += vm_str''',
       '''                        vm_strs[vm_name] = vm_str''')
mutant("c11-unknown-vm-accepted", "C11", CMD,
       '''                if vm_name not in available_vms:
                    raise ValueError(''',
       '''                if vm_name not in available_vms and False:
                    raise ValueError(''')
mutant("c11-primary-detection-misses-dotted", "C11", CMD,
       '''            for variant in re.split(r",|\\.|\\.\\.", value):''',
       '''            for variant in [value]:''')
mutant("c11-nets-conflict-check-dropped", "C11", CMD,
       '''            if nets_str != "":
                raise ValueError(''',
       '''            if nets_str != "" and False:
                raise ValueError(''')
mutant("c11-empty-vm-restriction-gets-default", "C11", CMD,
       '''                        use_vms_default[vm_name] = False''',
       '''                        use_vms_default[vm_name] = not value''')

# ---- C14 -------------------------------------------------------------------------------------------
mutant("c14-locks-skipped", "C14", POOL, '''SKIP_LOCKS = False''', '''SKIP_LOCKS = True''')
mutant("c14-unlock-before-critical-section", "C14", POOL,
       '''        try:
            yield fd
        finally:
            fcntl.lockf(fd, fcntl.LOCK_UN)''',
       '''        fcntl.lockf(fd, fcntl.LOCK_UN)
        yield fd''')
mutant("c14-timeout-proceeds-unlocked", "C14", POOL,
       '''        else:
            raise RuntimeError(
                f"Waiting to acquire {lockfile} took more than "
                f"the allowed {timeout} seconds"
            )''',
       '''        else:
            logging.warning(
                f"Waiting to acquire {lockfile} took more than "
                f"the allowed {timeout} seconds"
            )''')
mutant("c14-download-compare-skipped", "C14", POOL,
       '''            if TransferOps.compare_local(cache_path, pool_path, params):
                logging.info(f"Skip download of an already available {cache_path}")
                return''',
       '''            if False:
                logging.info(f"Skip download of an already available {cache_path}")
                return''')
mutant("c14-link-replaces-data", "C14", POOL,
       '''            if not os.path.islink(cache_path) and os.path.exists(cache_path):
                raise RuntimeError(
                    f"Cannot link to {pool_path}, {cache_path} data exists"
                )''',
       '''            if not os.path.islink(cache_path) and os.path.exists(cache_path):
                os.unlink(cache_path)''')
mutant("c14-link-uploaded", "C14", POOL,
       '''        if os.path.islink(cache_path):
            raise ValueError("Cannot upload a symlink to its destination")
        else:''',
       '''        if False:
            raise ValueError("Cannot upload a symlink to its destination")
        else:''')
mutant("c14-per-process-lockfile", "C14", POOL,
       '''    lockfile = resource_path + ".lock"''',
       '''    lockfile = resource_path + f".{os.getpid()}.lock"''')
mutant("c14-delete-outside-lock", "C14", POOL,
       '''        with image_lock(pool_path, update_timeout) as lock:
            os.unlink(pool_path)''',
       '''        with image_lock(pool_path, update_timeout) as lock:
            pass
        os.unlink(pool_path)''')
mutant("c14-upload-compare-before-lock", "C14", POOL,
       '''        with image_lock(pool_path, update_timeout) as lock:
            if TransferOps.compare_local(cache_path, pool_path, params):
                logging.info(f"Skip upload of an already available {cache_path}")
                return
            os.makedirs''',
       '''        if TransferOps.compare_local(cache_path, pool_path, params):
            logging.info(f"Skip upload of an already available {cache_path}")
            return
        with image_lock(pool_path, update_timeout) as lock:
            os.makedirs''',
       note="check-then-act race: compare outside the critical section")
mutant("c14-blocking-lock-ignores-timeout", "C14", POOL,
       '''                fcntl.lockf(fd, fcntl.LOCK_EX | fcntl.LOCK_NB)''',
       '''                fcntl.lockf(fd, fcntl.LOCK_EX)''',
       note="waits forever instead of raising after the timeout")

# ---- traversal properties (Engine T) -----------------------------------------------------------------
RUNNER = "avocado_i2n/plugins/runner.py"
INTERTEST = "avocado_i2n/intertest_setup.py"
mutant("c01-parent-dropped-without-run-check", "C01", GRAPH,
       '''                    if not next.should_run(worker):
                        previous.drop_parent(next, worker)''',
       '''                    previous.drop_parent(next, worker)''', checks=["C01", "C10", "C02"],
       note="judged equivalent w.r.t. the stated properties: retries are driven by the parent's own visits, the child only stops "
            "waiting for a parent that did not pass (which C01 excuses); no execution differed in the audited cases")
mutant("c01-locations-skip-result-workers", "C01", NODE,
       '''            for net_suffix in node.shared_result_worker_ids:
                setup_locations += [net_suffix + ":" + setup_path]''',
       '''            for net_suffix in []:
                setup_locations += [net_suffix + ":" + setup_path]''', checks=["C01", "C08"])
mutant("c01-setup-ready-after-first-parent", "C01", NODE,
       '''            if worker.id not in self._dropped_setup_nodes.get_workers(node):
                return False
        return True

    def is_cleanup_ready''',
       '''            if worker.id not in self._dropped_setup_nodes.get_workers(node):
                return False
            return True
        return True

    def is_cleanup_ready''', checks=["C01", "C02"])
mutant("c01-scan-decision-inverted", "C01", NODE,
       '''            should_scan = not self.is_finished(worker, 1)''',
       '''            should_scan = self.is_finished(worker, 1)''', checks=["C01", "C03"])
mutant("c05-reversible-nodes-cleaned-immediately", "C05", NODE,
       '''        if not is_reversible:
            return True
        else:
''',
       '''        if True:
            return True
        else:
''', checks=["C05", "C01"])
mutant("c02-no-path-reset-on-bounce", "C02", GRAPH,
       '''                # reset the worker path to improve overall ergodicity (it will look for other work)
                traverse_path = [root]
                # postpone this worker as it might traverse most of the graph (better done when nothing else to do)''',
       '''                # postpone this worker as it might traverse most of the graph (better done when nothing else to do)''',
       checks=["C02", "C04"])
mutant("c02-incompatible-workers-never-recorded", "C02", GRAPH,
       '''                test_node.incompatible_workers.add(test_object.long_suffix)''',
       '''                pass''', checks=["C02"],
       note="missed in the first audits (judged equivalent then); caught as a livelock once worker order and restricted-first worker "
            "sets were part of the C02 workload")
mutant("c03-no-unknown-placeholder", "C03", RUNNER,
       '''        node_result = {"name": name, "status": "UNKNOWN"}
        node.results += [node_result]''',
       '''        node_result = {"name": name, "status": "UNKNOWN"}
        node.results += [node_result]
        node.results.remove(node_result)
        node.results = node.results + [] if False else node.results''',
       note="placeholder appended and removed again before the first await", checks=["C03", "C10"])
mutant("c03-scan-uses-full-threshold", "C03", NODE,
       '''            should_scan = not self.is_finished(worker, 1)''',
       '''            should_scan = not self.is_finished(worker, -1)''', checks=["C03", "C01"])
mutant("c03-reruns-left-off-by-one", "C03", NODE,
       '''        reruns_left = 0 if max_tries == 1 else max_tries - total_runs''',
       '''        reruns_left = 0 if max_tries == 1 else max_tries - total_runs + 1''', checks=["C03", "C10"])
mutant("c03-results-not-filtered-by-scope", "C03", NODE,
       '''        for result in all_results:
            if scope_filter in result["name"]:
                results += [result]
        return results''',
       '''        return all_results''', checks=["C03", "C10", "C01"])
mutant("c04-yield-between-occupation-check-and-claim", "C04", GRAPH,
       '''        if test_node.is_occupied(worker):
            return
        test_node.started_worker = worker

        # add previous results''',
       '''        if test_node.is_occupied(worker):
            return
        await asyncio.sleep(0)
        test_node.started_worker = worker

        # add previous results''', checks=["C04", "C03"])
mutant("c04-occupation-threshold-plus-one", "C04", NODE,
       '''        return self.is_started(worker, max(max_concurrent_tries, 1))''',
       '''        return self.is_started(worker, max(max_concurrent_tries, 1) + 1)''', checks=["C04", "C03"])
mutant("c05-clean-ignores-involved-workers", "C05", NODE,
       '''                if not picked_node.is_cleanup_ready(picked_worker):
                    logging.debug(f"Node is not cleanup ready for {picked_worker.id}")
                    return False''',
       '''                if not picked_node.is_cleanup_ready(picked_worker):
                    logging.debug(f"Node is not cleanup ready for {picked_worker.id}")''', checks=["C05", "C01"])
mutant("c05-no-postponement-for-unexplored", "C05", GRAPH,
       '''                    if not next.is_flat() and len(unexplored_nodes) > 0:''',
       '''                    if False:''', checks=["C05", "C01"])
mutant("c05-reuse-policy-treated-as-force", "C05", NODE,
       '''            if unset_policy[0] == "f":
                # reverse the state setup for the given test object''',
       '''            if unset_policy[0] in ["f", "r"]:
                # reverse the state setup for the given test object''', checks=["C05"])
mutant("c08-all-workers-listed-as-sources", "C08", NODE,
       '''            for net_suffix in node.shared_result_worker_ids:''',
       '''            for net_suffix in [w.id for s in TestSwarm.run_swarms.values() for w in s.workers]:''', checks=["C08"])
mutant("c08-failed-producers-listed", "C08", NODE,
       '''            if result["status"] not in ["PASS", "WARN"]:
                continue''',
       '''            if result["status"] in ["UNKNOWN"]:
                continue''', checks=["C08"])
mutant("c08-source-params-from-executing-worker", "C08", NODE,
       '''                            self.params[f"{key}{source_suffix}"] = worker.params[key]''',
       '''                            self.params[f"{key}{source_suffix}"] = self.params.get(key, "")''', checks=["C08"])
mutant("c10-stop-and-rerun-swapped", "C10", NODE,
       '''        rerun_statuses_violated = {*test_statuses} - {*rerun_status}''',
       '''        rerun_statuses_violated = {*test_statuses} - {*(stop_status or rerun_status)}''', checks=["C10"])
mutant("c10-retries-share-one-identifier", "C10", RUNNER,
       '''            node.prefix = original_prefix + f"r{run_times}"''',
       '''            node.prefix = original_prefix''', checks=["C10"])
mutant("c10-verdict-all-instead-of-any", "C10", RUNNER,
       '''            shared_status &= any(''',
       '''            shared_status &= all(''', checks=["C10"])
mutant("c10-result-lookup-by-name-only", "C10", RUNNER,
       '''                        if x["name"].name == name and x["name"].uid == uid''',
       '''                        if x["name"].name == name''', checks=["C10"])
mutant("c10-negative-max-tries-accepted", "C10", NODE,
       '''        if max_tries < 0:
            raise ValueError("Number of max_tries cannot be less than zero")''',
       '''        if max_tries < 0:
            max_tries = 1''', checks=["C10"])

# ---- parse properties (Engine P) ------------------------------------------------------------------------
mutant("c06-one-directional-dependency", "C06", NODE,
       '''        test_node._cleanup_nodes[self] = test_node._cleanup_nodes.get(self, set()) | {
            test_object
        }''',
       '''        if len(test_node._cleanup_nodes) < 2:
            test_node._cleanup_nodes[self] = test_node._cleanup_nodes.get(self, set()) | {
                test_object
            }''', checks=["C06"])
mutant("c06-parent-lookup-ignores-object-variant", "C06", GRAPH,
       '''        filtered_parents = self.get_nodes(
            "name", rf"(\\.|^){setup_obj_restr}(\\.|$)", subset=filtered_parents
        )
        filtered_parents = self.get_nodes(
            "name", rf"(\\.|^){setup_net_restr}(\\.|$)", subset=filtered_parents
        )''',
       '''        filtered_parents = self.get_nodes(
            "name", rf"(\\.|^){setup_net_restr}(\\.|$)", subset=filtered_parents
        )''', checks=["C06", "C07"])
mutant("c07-no-cloning-for-second-producer", "C07", GRAPH,
       '''                if len(more_parents) > 1:
                    children += self.parse_cloned_branches_for_node_and_object(''',
       '''                if len(more_parents) > 99:
                    children += self.parse_cloned_branches_for_node_and_object(''', checks=["C07"])
mutant("c07-clone-state-not-renamed", "C07", GRAPH,
       '''                child.params["get_state" + state_suffixes] = parent_state''',
       '''                pass''', checks=["C07", "C06"])
mutant("c07-dependency-restriction-from-default", "C07", GRAPH,
       '''        setup_restr = object_params["get"]
        setup_obj_restr = test_object.component_form''',
       '''        setup_restr = test_node.params.get("get_images", object_params["get"])
        setup_obj_restr = test_object.component_form''', checks=["C07"])
mutant("c09-one-directional-bridging", "C09", NODE,
       '''            self._bridged_nodes.append(test_node)
            test_node._bridged_nodes.append(self)''',
       '''            self._bridged_nodes.append(test_node)''', checks=["C09"])
mutant("c09-bridged-register-not-shared", "C09", NODE,
       '''            self._dropped_cleanup_nodes = test_node._dropped_cleanup_nodes''',
       '''            pass''', checks=["C09"])
mutant("c09-lazy-expansion-drops-vm-restrictions", "C09", GRAPH,
       '''            filtered_vms = self.get_objects_by_restr(
                test_node.restrs.get(vm_name, ""), subset=filtered_vms
            )''',
       '''            filtered_vms = self.get_objects_by_restr(
                test_node.restrs.get(vm_name, "") if len(self.nodes) < 12 else "", subset=filtered_vms
            )''', checks=["C09", "C07"], note="restriction honoured only while the graph is small: differs between eager and lazy order")

# ---- tools -------------------------------------------------------------------------------------------------------
mutant("c15-parents-of-target-flagged-for-cleanup", "C15", INTERTEST,
       '''                        flag=lambda self, slot: len(self.cloned_nodes) == 0,
                        skip_parents=True,''',
       '''                        flag=lambda self, slot: len(self.cloned_nodes) == 0,
                        skip_parents=False,''', checks=["C15"])
mutant("c15-missing-target-state-swallowed", "C15", INTERTEST,
       '''                    raise ValueError(
                        f"Could not identify a test node from {vm_name}'s to_state='{flag_state}', "
                        f"is it compatible with the default or specified remove_set?"
                    )''',
       '''                    continue''', checks=["C15"])
mutant("c15-states-before-from-state-rerun", "C15", INTERTEST,
       '''                clean_graph.flag_intersection(
                    skip_graph, flag_type="run", flag=lambda self, slot: False
                )''',
       '''                pass''', checks=["C15"])
mutant("c20-run-flag-inverted", "C20", INTERTEST,
       '''    # as each worker's traversal will be restricted only to its nodes the run policy is also simpler
    graph.flag_children(
        flag_type="run",
        flag=lambda self, slot: not self.is_shared_root()
        and slot not in self.shared_finished_workers,
    )''',
       '''    # as each worker's traversal will be restricted only to its nodes the run policy is also simpler
    graph.flag_children(
        flag_type="run",
        flag=lambda self, slot: not self.is_shared_root(),
    )''', checks=["C20"], note="nodes run again for as long as they are asked")
mutant("c20-vm-not-set-for-state-step", "C20", INTERTEST,
       '''            setup_dict["vms"] = test_object.suffix
''',
       '''            setup_dict["vms"] = sorted(config["vm_strs"].keys())[0]
''', checks=["C20"])
mutant("c20-chain-stops-at-failing-step", "C20", "avocado_i2n/plugins/manu.py",
       '''                    # return 1 if at least one of the steps fails
                    retcode = 1''',
       '''                    # return 1 if at least one of the steps fails
                    retcode = 1
                    break''', checks=["C20"])
mutant("c20-exception-does-not-fail-chain", "C20", "avocado_i2n/plugins/manu.py",
       '''                LOG_UI.error("Use 'export AVOCADO_LOG_EARLY=1' for further details.")
                retcode = 1''',
       '''                LOG_UI.error("Use 'export AVOCADO_LOG_EARLY=1' for further details.")''', checks=["C20"])
