"""C03 - see DESIGN.md §3; thin wrapper: workload choice + oracle of vlib/oracles_trav.py on Engine T runs."""

from checks import travprop
from checks.trav_sources import SOURCES, NONTRIVIAL, COUNTERS, CLASSIFY

if __name__ == "__main__":
    travprop.main("C03", SOURCES["C03"], COUNTERS["C03"], nontrivial=NONTRIVIAL["C03"], classify=CLASSIFY.get("C03"))
