"""C04 - see DESIGN.md §3; thin wrapper: workload choice + oracle of vlib/oracles_trav.py on Engine T runs."""

from checks import travprop
from checks.trav_sources import SOURCES, NONTRIVIAL, COUNTERS, CLASSIFY

if __name__ == "__main__":
    travprop.main("C04", SOURCES["C04"], COUNTERS["C04"], nontrivial=NONTRIVIAL["C04"], classify=CLASSIFY.get("C04"))
