"""C05 - see DESIGN.md §3; thin wrapper: workload choice + oracle of vlib/oracles_trav.py on Engine T runs."""

from checks import travprop
from checks.trav_sources import SOURCES, NONTRIVIAL, COUNTERS, CLASSIFY

if __name__ == "__main__":
    travprop.main("C05", SOURCES["C05"], COUNTERS["C05"], nontrivial=NONTRIVIAL["C05"], classify=CLASSIFY.get("C05"), quick_cases=200)
