"""C06 - see DESIGN.md §3; Engine P (vlib/graphsnap.py) on generated and shipped selections."""

from checks import parseprop

COUNTERS = {"C06": ["nodes_checked", "edges_checked", "required_states_checked", "reachability_checked"],
            "C07": ["nodes_compared", "dependency_pairs_compared", "per_worker_uniqueness_checked", "cloned_nodes_checked"],
            "C09": ["copy_entries_compared", "bridge_groups_checked", "lazy_nodes_compared", "determinism_compared"]}

if __name__ == "__main__":
    parseprop.main("C06", COUNTERS["C06"])
