"""C08 - see DESIGN.md §3; thin wrapper: workload choice + oracle of vlib/oracles_trav.py on Engine T runs."""

from checks import travprop
from checks.trav_sources import SOURCES, NONTRIVIAL, COUNTERS, CLASSIFY

if __name__ == "__main__":
    travprop.main("C08", SOURCES["C08"], COUNTERS["C08"], nontrivial=NONTRIVIAL["C08"], classify=CLASSIFY.get("C08"))
