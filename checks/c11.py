"""
C11 - command line selections and overrides mean what the documentation says.

Monitor: generated argument lists go through the real cmd_parser.params_from_cmd; the selection is observed
as the names of TestGraph.parse_flat_nodes(config["tests_str"], config["param_dict"]) and compared
(a) differentially with what the Cartesian parser itself yields for the restriction text the harness
composes from the documented mapping, (b) metamorphically (only=a only=b == only=a..b; permutations and
duplicates of arguments), (c) for per-vm restrictions / vms= / nets= / only_nets=, (d) K=V present in every
parsed flat test, (e) rejections.
"""

import itertools
import os
import re
import sys

from vlib.common import Verdict, parse_args, rng_for, load_replay
from vlib import par

PROP = "C11"
_STATE = {}


def child_init():
    from avocado_i2n import cmd_parser, params_parser as param
    from avocado_i2n.cartgraph import TestGraph
    from virttest import cartesian_config
    _STATE.update(cmd_parser=cmd_parser, param=param, TestGraph=TestGraph, cartesian_config=cartesian_config)
    rep = param.Reparsable()
    rep.parse_next_batch(base_file="sets.cfg", base_str="only all\n")
    _STATE["universe"] = [d["name"] for d in rep.get_parser().get_dicts()]
    _STATE["restrictions"] = param.all_restrictions()
    _STATE["vms"] = param.all_objects("vms")
    tests_params = param.Reparsable()
    tests_params.parse_next_batch(base_file="groups-base.cfg", ovrwrt_file=param.tests_ovrwrt_file())
    _STATE["default_only"] = tests_params.get_params().get("default_only", "all")
    vms_params = param.Reparsable()
    vms_params.parse_next_batch(base_file="guest-base.cfg", ovrwrt_file=param.vms_ovrwrt_file())
    vms_params = vms_params.get_params()
    _STATE["default_only_vm"] = {vm: vms_params.get(f"default_only_{vm}") for vm in _STATE["vms"]}


def reference_selection(restriction_lines):
    """Names the Cartesian parser yields for sets.cfg followed by the given restriction lines."""
    param, cartesian_config = _STATE["param"], _STATE["cartesian_config"]
    parser = cartesian_config.Parser()
    parser.parse_file(os.path.join(param.custom_configs_dir(), "sets.cfg"))
    parser.parse_string("".join(restriction_lines))
    return [d["name"] for d in parser.get_dicts()]


def reference_nets(restriction):
    param, cartesian_config = _STATE["param"], _STATE["cartesian_config"]
    parser = cartesian_config.Parser()
    parser.parse_file(os.path.join(param.custom_configs_dir(), "nets.cfg"))
    parser.parse_string(restriction)
    return [d["shortname"] for d in parser.get_dicts()]


def observe(args, with_nodes=True):
    """Run the real code on an argument list; returns a JSON-able observation."""
    cmd_parser, TestGraph = _STATE["cmd_parser"], _STATE["TestGraph"]
    config = {"params": list(args)}
    try:
        cmd_parser.params_from_cmd(config)
    except Exception as error:
        return {"rejected": f"{type(error).__name__}", "stage": "params_from_cmd", "message": str(error)[:300]}
    observation = {"tests_str": config["tests_str"], "vm_strs": config["vm_strs"], "param_dict": config["param_dict"],
                   "vms_selected": config["vms_params"]["vms"]}
    if with_nodes:
        try:
            nodes = TestGraph.parse_flat_nodes(config["tests_str"], config["param_dict"])
        except Exception as error:
            return {"rejected": f"{type(error).__name__}", "stage": "parse_flat_nodes", "message": str(error)[:300]}
        observation["names"] = [n.params["name"] for n in nodes]
        missing = []
        for key, value in config["param_dict"].items():
            for node in nodes:
                if node.params.get(key) != value:
                    missing.append([key, value, node.params["name"], node.params.get(key)])
        observation["override_misses"] = missing[:5]
        observation["override_checks"] = len(config["param_dict"]) * len(nodes)
    return observation


def run_case(case):
    """case: {"args": [...], "expect": {...}}; returns {"problems": [[mechanism, message]], counters...}"""
    args = case["args"]
    problems, counters = [], {}
    obs = observe(args)
    expect_reject = case.get("expect_reject")
    restrictions, default_only = _STATE["restrictions"], _STATE["default_only"]

    # ---- documented mapping, composed by the harness ------------------------------------------------
    lines, primary_given = [], False
    overrides, vm_lines, vms_selected, vm_touched = {}, {vm: [] for vm in _STATE["vms"]}, list(_STATE["vms"]), set()
    nets_explicit, nets_restr = None, None
    for arg in args:
        match = re.match(r"^(\w+)=(.*)$", arg)
        if not match:
            continue
        key, value = match.groups()
        if key in ("only", "no"):
            lines.append(f"{key} {value}\n")
            if any(v in restrictions for v in re.split(r"\.\.|\.|,", value)):
                primary_given = True
        elif re.match(r"^(only|no)_nets$", key):
            nets_restr = f"{key[:-5]} {value}\n" if value else ""
        elif re.match(r"^(only|no)_(vm\d+)$", key) and re.match(r"^(only|no)_(vm\d+)$", key).group(2) in vm_lines:
            vm = re.match(r"^(only|no)_(vm\d+)$", key).group(2)
            vm_touched.add(vm)
            if value:
                vm_lines[vm].append(f"{key.split('_')[0]} {value}\n")
        elif key == "vms":
            vms_selected = value.split(",")
        elif key == "nets":
            nets_explicit = value.replace(",", " ")
        elif not (key.startswith("only_") or key.startswith("no_")):
            overrides[key] = value.replace(",", " ")
    if not primary_given:
        lines.append(f"only {default_only}\n")

    if "rejected" in obs:
        counters["rejections_seen"] = 1
        if expect_reject:
            return {"problems": [], "counters": counters, "rejected": True}
        # legitimate rejection: the equivalent restriction selects nothing
        try:
            reference = reference_selection(lines)
        except Exception:
            reference = []
        if reference:
            problems.append(["valid command line rejected",
                             f"{args} raised {obs['rejected']} at {obs['stage']}: {obs['message']}; "
                             f"the Cartesian parser selects {len(reference)} tests for {lines}"])
        else:
            counters["empty_selection_rejected"] = 1
        return {"problems": problems, "counters": counters, "rejected": True}
    if expect_reject:
        # accepted: silently ignored if nothing differs from the same command line without the offending token
        baseline = observe([a for a in args if a != case["bad_token"]]) if case.get("bad_token") else None
        effect = baseline is not None and "rejected" not in baseline and \
            (baseline["names"], baseline["vm_strs"], baseline["param_dict"]) != (obs["names"], obs["vm_strs"], obs["param_dict"])
        problems.append([f"{expect_reject} accepted" + (" (with an effect)" if effect else " and silently ignored"),
                         f"{args} accepted; tests_str {obs['tests_str']!r} param_dict {obs['param_dict']}"])
        return {"problems": problems, "counters": counters}

    # ---- (a) differential selection ---------------------------------------------------------------------
    reference = reference_selection(lines)
    counters["selections_compared"] = 1
    if obs["names"] != reference:
        if sorted(obs["names"]) == sorted(reference):
            problems.append(["selection order differs from the Cartesian parser", f"{args}"])
        else:
            problems.append(["selection differs from the Cartesian parser for the equivalent restrictions",
                             f"{args}: got {len(obs['names'])} expected {len(reference)}; only in real "
                             f"{sorted(set(obs['names']) - set(reference))[:5]} only in reference {sorted(set(reference) - set(obs['names']))[:5]}"])
    # ---- (b) metamorphic ------------------------------------------------------------------------------------
    for variant_kind, variant_args in case.get("variants", []):
        other = observe(variant_args)
        counters["metamorphic_compared"] = counters.get("metamorphic_compared", 0) + 1
        if "rejected" in other:
            problems.append([f"metamorphic {variant_kind}: equivalent command line rejected", f"{args} vs {variant_args}: {other}"])
        elif sorted(other["names"]) != sorted(obs["names"]):
            problems.append([f"metamorphic {variant_kind}: selection differs", f"{args} -> {len(obs['names'])}; {variant_args} -> {len(other['names'])}"])
        elif variant_kind in ("permutation", "duplication") and (
                {k: set(v.splitlines()) for k, v in other["vm_strs"].items()} != {k: set(v.splitlines()) for k, v in obs["vm_strs"].items()}
                or other["param_dict"] != obs["param_dict"]):
            problems.append([f"metamorphic {variant_kind}: objects or overrides differ",
                             f"{args} -> {obs['vm_strs']} {obs['param_dict']}; {variant_args} -> {other['vm_strs']} {other['param_dict']}"])
    # ---- (c) objects ------------------------------------------------------------------------------------------
    counters["vm_strs_compared"] = 1
    if sorted(obs["vm_strs"]) != sorted(vms_selected) or obs["vms_selected"].split() != vms_selected:
        problems.append(["vm_strs keys differ from the vms= selection", f"{args}: keys {sorted(obs['vm_strs'])} selected {vms_selected}"])
    for vm in vms_selected:
        if vm not in obs["vm_strs"]:
            continue
        if vm in vm_touched:
            expected = "".join(vm_lines[vm])
        else:
            default = _STATE["default_only_vm"].get(vm)
            expected = f"only {default}\n" if default else ""
        if obs["vm_strs"][vm] != expected:
            problems.append(["per-vm restriction text differs from the documented mapping",
                             f"{args}: {vm} -> {obs['vm_strs'][vm]!r} expected {expected!r}"])
    if nets_restr is not None or nets_explicit is not None:
        counters["nets_compared"] = 1
        expected_nets = nets_explicit if nets_explicit is not None else " ".join(reference_nets(nets_restr))
        if obs["param_dict"].get("nets") != expected_nets:
            problems.append(["nets selection differs", f"{args}: nets={obs['param_dict'].get('nets')!r} expected {expected_nets!r}"])
    # ---- (d) overrides -----------------------------------------------------------------------------------------
    counters["override_checks"] = obs["override_checks"]
    expected_dict = dict(overrides)
    if "nets" in obs["param_dict"]:
        expected_dict["nets"] = obs["param_dict"]["nets"]
    if obs["param_dict"] != expected_dict:
        problems.append(["param_dict differs from the K=V arguments", f"{args}: {obs['param_dict']} expected {expected_dict}"])
    if obs["override_misses"]:
        problems.append(["a K=V override does not reach every parsed test", f"{args}: {obs['override_misses']}"])
    return {"problems": problems, "counters": counters, "n_selected": len(obs["names"])}


# ----------------------------------------------------------------------------------------------------------
# generation (parent process; needs the universe -> computed once in a child-like init)
# ----------------------------------------------------------------------------------------------------------

VM_VARIANTS = {"vm1": ["CentOS", "Fedora", "qemu_kvm_centos", "qcow2", "x86_64"], "vm2": ["Win10", "Win7", "Windows", "qemu_kvm_windows_10"],
               "vm3": ["Ubuntu", "Kali", "Linux"]}
OVERRIDE_KEYS = ["test_timeout", "max_tries", "pool_scope", "get_mode", "my_custom_key", "type", "kill_vm", "unset_mode_images_vm2", "dry_run"]
OVERRIDE_VALUES = ["5", "yes", "own,shared", "ri", "a.b/c-d", "", "x_y", "3600"]


def gen_cases(rng, universe, restrictions, number, normal_names=()):
    variants = sorted({v for name in universe for v in name.split(".")} - {"all"})
    for index in range(number):
        args, variants_list = [], []
        n_test = rng.randint(0, 3)
        test_values = []
        target = rng.choice(universe).split(".")[1:]
        for _ in range(n_test):
            kind = rng.random()
            # mostly restrictions that keep one target test selectable, so that selections are rarely empty
            name = target if rng.random() < 0.7 else rng.choice(universe).split(".")[1:]
            if kind < 0.35:
                value = rng.choice(restrictions) if rng.random() < 0.4 else rng.choice(name if rng.random() < 0.7 else variants)
            elif kind < 0.55:
                i = rng.randrange(len(name))
                value = ".".join(name[i:rng.randint(i + 1, len(name))])
            elif kind < 0.75:
                value = ",".join([rng.choice(name)] + rng.sample(variants, rng.randint(1, 2)))
            elif kind < 0.9:
                value = "..".join(rng.sample(name, 2) if len(name) >= 2 and rng.random() < 0.7 else rng.sample(variants + restrictions, 2))
            else:
                value = rng.choice(["all", "nonleaves", "leaves"]) + ".." + rng.choice(name)
            key = "only" if rng.random() < 0.75 else "no"
            if key == "no" and rng.random() < 0.7:
                value = rng.choice([v for v in variants if v not in target] or variants)
            test_values.append((key, value))
            args.append(f"{key}={value}")
        for vm in rng.sample(sorted(VM_VARIANTS), rng.choice([0, 0, 1, 2])):
            value = rng.choice(VM_VARIANTS[vm] + [""])
            args.append(f"{rng.choice(['only', 'only', 'no'])}_{vm}={value}")
            if rng.random() < 0.25:
                # stacked restrictions for one vm
                args.append(f"{rng.choice(['only', 'no'])}_{vm}={rng.choice(VM_VARIANTS[vm])}")
        if rng.random() < 0.3:
            args.append("vms=" + ",".join(rng.sample(sorted(VM_VARIANTS), rng.randint(1, 3))))
        nets_kind = rng.random()
        if nets_kind < 0.2:
            args.append("nets=" + ",".join(rng.sample(["net1", "net2", "net3", "net4", "net5"], rng.randint(1, 3))))
        elif nets_kind < 0.35:
            args.append(rng.choice(["only_nets=cluster1", "only_nets=net1,net2", "no_nets=cluster1,cluster2", "only_nets=localhost..net6",
                                    "only_nets=", "only_nets=cluster2..net9"]))
        keys = rng.sample(OVERRIDE_KEYS, rng.choice([0, 1, 1, 2, 3]))
        for key in keys:
            args.append(f"{key}={rng.choice(OVERRIDE_VALUES)}")
        # without a primary restriction the default set (normal) is added: keep the target selectable
        has_primary = any(v in restrictions for k, value in test_values for v in re.split(r"\.\.|\.|,", value))
        if not has_primary and ".".join(["all"] + target) not in normal_names and rng.random() < 0.85:
            primary = rng.choice(["all", "nonleaves" if target[0] in ("internal", "original") else "leaves", "all"])
            test_values.append(("only", primary))
            args.append(f"only={primary}")
        rng.shuffle(args)
        # metamorphic variants
        onlys = [v for k, v in test_values if k == "only"]
        if len(onlys) >= 2 and not any("," in value for value in onlys):
            merged = [a for a in args if not a.startswith("only=")] + ["only=" + "..".join(onlys)]
            variants_list.append(["only-merge", merged])
        if len(args) >= 2:
            permuted = list(args)
            rng.shuffle(permuted)
            variants_list.append(["permutation", permuted])
            duplicated = list(args) + [rng.choice(args)]
            variants_list.append(["duplication", duplicated])
        yield {"args": args, "variants": variants_list}
    # rejections
    bad = [
        (["only=tutorial1", "justaword"], "malformed argument", "justaword"),
        (["=value", "only=tutorial1"], "malformed argument", "=value"),
        (["a-b=c"], "malformed argument", "a-b=c"),
        (["only=tutorial1", "only tutorial2"], "malformed argument", "only tutorial2"),
        (["vms=vm9"], "unknown vm", "vms=vm9"),
        (["vms=vm1,vmx", "only=tutorial1"], "unknown vm", "vms=vm1,vmx"),
        (["vms="], "unknown vm", "vms="),
        (["only_vm9=CentOS"], "unknown object restriction", "only_vm9=CentOS"),
        (["no_vmx=Win10", "only=tutorial1"], "unknown object restriction", "no_vmx=Win10"),
        (["only_foo=bar"], "unknown object restriction", "only_foo=bar"),
        (["only_nets=cluster1", "nets=net6"], "conflicting net selections", "nets=net6"),
        (["nets=net6", "only_nets=cluster1"], "conflicting net selections", "only_nets=cluster1"),
        (["nets=net1,net2", "no_nets=net1", "only=tutorial1"], "conflicting net selections", "no_nets=net1"),
        (["no_nets=cluster1", "only=tutorial1", "nets=net3"], "conflicting net selections", "nets=net3"),
    ]
    for _ in range(max(1, number // 200)):
        for args, what, token in bad:
            extra = [f"{rng.choice(OVERRIDE_KEYS)}={rng.choice(OVERRIDE_VALUES)}"] if rng.random() < 0.5 else []
            full = list(args) + extra
            if what != "conflicting net selections":
                rng.shuffle(full)
            else:
                # keep the relative order of the two conflicting tokens (both orders are listed above)
                full = extra + list(args)
            yield {"args": full, "expect_reject": what, "bad_token": token}


def main():
    args = parse_args()
    verdict = Verdict(PROP, args, rule=(
        "case = argument list of 0..9 tokens over only/no (variants, primary sets, '.', ',', '..' forms taken from the suite's own "
        "universe of 65 tests), only_vmX/no_vmX (incl. empty values), vms=, nets=/only_nets=/no_nets=, K=V overrides, shuffled; each "
        "case carries its metamorphic variants (only-merge, permutation, duplication); plus malformed / unknown / conflicting lists that "
        "must be rejected. non-trivial = >=2 arguments or an invalid one; distinct by the normalised argument multiset"))
    verdict.assumptions = ["the Cartesian parser of avocado-vt applied to sets.cfg + the composed restriction lines is the reference",
                           "rejected = any exception from params_from_cmd or from parse_flat_nodes on its result; an empty reference "
                           "selection may legitimately be rejected",
                           "only_vmX=<unknown variant> is not judged here (it is rejected later by object parsing)"]
    rng = rng_for(args, PROP)
    # the universe is needed for generation: compute it in this process too
    os.environ.setdefault("HOME", "/tmp")
    import tempfile
    home = tempfile.mkdtemp(prefix="verif-home-main-")
    os.environ["HOME"] = home
    import logging
    logging.disable(logging.CRITICAL)
    child_init()
    universe, restrictions = _STATE["universe"], _STATE["restrictions"]
    normal = set(name.replace("normal.nongui.", "all.").replace("normal.gui.", "all.")
                 for name in reference_selection(["only normal\n"]))
    if args.replay:
        cases = [load_replay(args.replay)["witness"]["case"]]
        results = ((case, run_case(case)) for case in cases)
    else:
        number = 700 if args.tier == "quick" else 12000
        results = par.run_cases("checks.c11:run_case", gen_cases(rng, universe, restrictions, number, normal), jobs=args.jobs, timeout=300)
    for case, result in results:
        if "inconclusive" in result:
            verdict.inconclusive_case(result["inconclusive"][:120])
            continue
        for name, value in result.get("counters", {}).items():
            verdict.count(name, value)
        nontrivial = len(case["args"]) >= 2 or bool(case.get("expect_reject"))
        verdict.case(signature=sorted(case["args"]) + [case.get("expect_reject")], nontrivial=nontrivial,
                     sample=case if len(verdict.samples) < 4 and len(case["args"]) >= 3 else None)
        if case.get("expect_reject"):
            verdict.count("rejections_expected")
        seen = set()
        for mechanism, message in result["problems"]:
            if mechanism not in seen:
                seen.add(mechanism)
                verdict.violation(mechanism, message, {"case": case})
    import shutil
    shutil.rmtree(home, ignore_errors=True)
    sys.exit(verdict.finish(min_counters=[] if args.replay else ["selections_compared", "metamorphic_compared", "rejections_seen",
                                                                 "override_checks", "nets_compared"]))


if __name__ == "__main__":
    main()
