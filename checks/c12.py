"""
C12 - state operations follow the documented policy table and a plain set-of-names store model.

Monitor: an in-memory backend is registered in the real `states.setup.BACKENDS`; the real
check/get/set/unset/push/pop_states are executed on generated parameter sets; every effectful backend call
(get/set/unset/get_root/set_root/unset_root with object and state) is logged.  A reference model written from
the README policy table (not from setup.py) predicts, per call: the ordered backend calls, the resulting store
and the exception class.  icontract postconditions on the six functions compare on normal return; the
harness compares on the exceptional paths (icontract does not look at state after a raise).
"""

import collections
import itertools
import sys
import unittest.mock as mock

import icontract
from avocado.core import exceptions
from virttest.utils_params import Params

from avocado_i2n.states import setup as ss

from vlib.common import Verdict, parse_args, rng_for, load_replay

PROP = "C12"
ROOTS = ["root", "0root", "boot", "0boot"]
DEFAULT_MODES = {"get": "ra", "set": "ff", "unset": "fi", "check": "rf"}
TABLE = {
    "get": {"present": {"a": "abort", "r": "do", "i": "skip"}, "absent": {"a": "abort", "i": "skip"}},
    "set": {"present": {"a": "abort", "r": "skip", "f": "redo"}, "absent": {"a": "abort", "f": "do"}},
    "unset": {"present": {"r": "skip", "f": "do"}, "absent": {"a": "abort", "i": "skip"}},
}
EVALS = collections.Counter()


class Misuse(Exception):
    """The backend was asked for something impossible on its store (e.g. get of a missing state)."""


class PostBroken(Exception):
    pass


# ----------------------------------------------------------------------------------------------------
# in-memory backend (the observation point)
# ----------------------------------------------------------------------------------------------------

class Store:
    def __init__(self, spec=None):
        # object key -> {"root": bool, "states": set}
        self.objects = {}
        for key, value in (spec or {}).items():
            self.objects[key] = {"root": bool(value["root"]), "states": set(value["states"])}

    def entry(self, key):
        return self.objects.setdefault(key, {"root": False, "states": set()})

    def snapshot(self):
        return {k: {"root": v["root"], "states": sorted(v["states"])} for k, v in sorted(self.objects.items())
                if v["root"] or v["states"]}


STORE = Store()
CALLS = []
# (operation, object, pool_scope the backend was handed): a pool-aware backend decides by it where to look
SCOPES_SEEN = []
# (object, show_location the presence lookup was made with)
LOCATIONS_SEEN = []


def object_key(params):
    last = params["object_type"].split("/")[-1]
    if last == "images":
        return f"{params['vms']}/{params['images']}"
    elif last == "vms":
        return params["vms"]
    elif last == "nets":
        return "net:" + params["nets"]
    raise Misuse(f"unknown object type {params['object_type']}")


class MemBackend(ss.StateBackend):

    @classmethod
    def show(cls, params, object=None):
        SCOPES_SEEN.append(("show", object_key(params), params.get("pool_scope")))
        LOCATIONS_SEEN.append((object_key(params), params.get("show_location")))
        return sorted(STORE.entry(object_key(params))["states"])

    @classmethod
    def check_root(cls, params, object=None):
        return STORE.entry(object_key(params))["root"]

    @classmethod
    def get(cls, params, object=None):
        key, state = object_key(params), params["get_state"]
        CALLS.append(("get", key, state))
        SCOPES_SEEN.append(("get", key, params.get("pool_scope")))
        if state not in STORE.entry(key)["states"]:
            raise Misuse(f"get of missing state {state} of {key}")

    @classmethod
    def set(cls, params, object=None):
        key, state = object_key(params), params["set_state"]
        CALLS.append(("set", key, state))
        SCOPES_SEEN.append(("set", key, params.get("pool_scope")))
        if not STORE.entry(key)["root"]:
            raise Misuse(f"set of state {state} on {key} without root")
        if state in STORE.entry(key)["states"]:
            raise Misuse(f"set of already present state {state} on {key} (no prior unset)")
        STORE.entry(key)["states"].add(state)

    @classmethod
    def unset(cls, params, object=None):
        key, state = object_key(params), params["unset_state"]
        CALLS.append(("unset", key, state))
        SCOPES_SEEN.append(("unset", key, params.get("pool_scope")))
        if state not in STORE.entry(key)["states"]:
            raise Misuse(f"unset of missing state {state} of {key}")
        STORE.entry(key)["states"].remove(state)

    @classmethod
    def get_root(cls, params, object=None):
        key = object_key(params)
        CALLS.append(("get_root", key, None))
        if not STORE.entry(key)["root"]:
            raise Misuse(f"get_root of missing {key}")

    @classmethod
    def set_root(cls, params, object=None):
        key = object_key(params)
        CALLS.append(("set_root", key, None))
        STORE.entry(key)["root"] = True

    @classmethod
    def unset_root(cls, params, object=None):
        key = object_key(params)
        CALLS.append(("unset_root", key, None))
        STORE.entry(key)["root"] = False
        # removing an image (or net) removes what was saved on it; a vm's root state is merely "running"
        if "/" in key or key.startswith("net:"):
            STORE.entry(key)["states"].clear()


class FakeEnv:
    def __init__(self):
        self.vms = {}

    def get_vm(self, name):
        return self.vms.setdefault(name, mock.MagicMock(name=name))


# ----------------------------------------------------------------------------------------------------
# reference model (README table + a root flag + a set of names per object)
# ----------------------------------------------------------------------------------------------------

class ModelAbort(Exception):
    pass


class ModelError(Exception):
    pass


def addressed_objects(case):
    """Post-order list of (key, type path, last type) as the documentation describes the hierarchy."""
    objects = []
    for vm in case["vms"]:
        for image in case["images"][vm]:
            objects.append((f"{vm}/{image}", "nets/vms/images", "images"))
        objects.append((vm, "nets/vms", "vms"))
    objects.append(("net:net1", "nets", "nets"))
    return objects


def model_check_step(store, calls, key, last, state, check_mode):
    """Root prerequisite handling; returns whether `state` exists."""
    entry = store.entry(key)
    if not entry["root"]:
        if check_mode[1] == "f":
            calls.append(("set_root", key, None))
            entry["root"] = True
        elif check_mode[1] == "r":
            return False
        else:
            raise ModelError("invalid check policy")
    elif check_mode[0] == "f":
        calls.append(("unset_root", key, None))
        if last != "vms":
            entry["states"].clear()
        calls.append(("set_root", key, None))
        entry["root"] = True
    else:
        calls.append(("get_root", key, None))
    return entry["root"] if state in ROOTS else state in entry["states"]


def model_single(store, calls, op, key, last, state, mode, check_mode):
    present = model_check_step(store, calls, key, last, state, check_mode)
    row = TABLE[op]["present" if present else "absent"]
    letter = mode[0] if present else mode[1]
    action = row.get(letter)
    if action is None:
        raise ModelError(f"invalid {op} policy {mode}")
    if action == "abort":
        raise ModelAbort()
    if action == "skip":
        return
    entry = store.entry(key)
    is_root = state in ROOTS
    if op == "get":
        calls.append(("get_root" if is_root else "get", key, None if is_root else state))
    elif op == "set":
        if action == "redo":
            calls.append(("unset_root" if is_root else "unset", key, None if is_root else state))
            if is_root:
                entry["root"] = False
                if last != "vms":
                    entry["states"].clear()
            else:
                entry["states"].discard(state)
        elif not is_root and not entry["root"]:
            raise ModelError("cannot force a state without a root")
        calls.append(("set_root" if is_root else "set", key, None if is_root else state))
        if is_root:
            entry["root"] = True
        else:
            entry["states"].add(state)
    elif op == "unset":
        calls.append(("unset_root" if is_root else "unset", key, None if is_root else state))
        if is_root:
            entry["root"] = False
            if last != "vms":
                entry["states"].clear()
        else:
            entry["states"].discard(state)


def normalise(calls):
    """A vm's root is dropped either through the backend (unset_root) or through the vm object (destroy): same thing."""
    result = []
    for index, call in enumerate(calls):
        if call[0] == "unset_root" and "/" not in call[1] and not call[1].startswith("net:") \
                and index + 1 < len(calls) and calls[index + 1] == ("set_root", call[1], None):
            continue
        result.append(call)
    return result


def model_run(case, store):
    """Returns (calls, outcome) where outcome is 'ok' / 'abort' / 'error' / ('value', bool) for check."""
    calls = []
    op = case["op"]
    skip_types = case.get("skip_types", [])
    try:
        for key, type_path, last in addressed_objects(case):
            spec = case["objects"].get(key)
            if spec is None or not spec.get("state"):
                continue
            honours_filters = op in ("check", "get", "set", "unset")
            if honours_filters and type_path in skip_types:
                continue
            if honours_filters and last == "images" and spec.get("readonly"):
                continue
            if not honours_filters and (type_path in skip_types or (last == "images" and spec.get("readonly"))):
                # push/pop on filtered objects: the documentation says such objects are not to be touched
                continue
            state, check_mode = spec["state"], spec.get("check_mode", DEFAULT_MODES["check"])
            if op == "check":
                if not model_check_step(store, calls, key, last, state, check_mode):
                    return calls, ("value", False)
            elif op in ("get", "set", "unset"):
                model_single(store, calls, op, key, last, state, spec.get("mode", DEFAULT_MODES[op]), check_mode)
            elif op == "push":
                if state in ROOTS:
                    continue
                model_single(store, calls, "set", key, last, state, spec.get("mode", "af"), check_mode)
            elif op == "pop":
                if state in ROOTS:
                    continue
                model_single(store, calls, "get", key, last, state, "ra", check_mode)
                model_single(store, calls, "unset", key, last, state, "fa", check_mode)
    except ModelAbort:
        return calls, "abort"
    except ModelError:
        return calls, "error"
    return calls, ("value", True) if op == "check" else "ok"


# ----------------------------------------------------------------------------------------------------
# driving the real code
# ----------------------------------------------------------------------------------------------------

def build_params(case):
    params = Params()
    params["nets"] = "net1"
    params["vms"] = " ".join(case["vms"])
    for vm in case["vms"]:
        params[f"images_{vm}"] = " ".join(case["images"][vm])
    params["states_chain"] = "nets vms images"
    params["states_nets"] = params["states_vms"] = params["states_images"] = "mem"
    if case.get("pool_scope"):
        params["pool_scope"] = case["pool_scope"]
    if case.get("locations"):
        # a configured listing location and another location the operation itself addresses
        params["show_location"] = case["locations"]["show"]
        params[f"{case['op']}_location"] = case["locations"]["op"]
    if case.get("skip_types"):
        params["skip_types"] = " ".join(case["skip_types"])
    op = case["op"]
    for key, spec in case["objects"].items():
        if key.startswith("net:"):
            suffix = "nets_" + key[4:]
        elif "/" in key:
            vm, image = key.split("/")
            suffix = f"images_{image}_{vm}"
        else:
            suffix = "vms_" + key
        if spec.get("state"):
            params[f"{op}_state_{suffix}"] = spec["state"]
        if "mode" in spec and op != "pop":
            params[f"{op}_mode_{suffix}"] = spec["mode"]
        if "check_mode" in spec:
            params[f"check_mode_{suffix}"] = spec["check_mode"]
        if spec.get("readonly"):
            vm, image = key.split("/")
            params[f"image_readonly_{image}_{vm}"] = "yes"
    return params


PREDICTION = {}


def calls_and_store_match_model(result):
    EVALS["postconditions"] += 1
    return normalise(CALLS) == PREDICTION["calls"] and STORE.snapshot() == PREDICTION["store"]


def contracted(function):
    return icontract.ensure(calls_and_store_match_model, error=lambda result: PostBroken("normal return"))(function)


FUNCTIONS = {}


def install():
    ss.BACKENDS = {"mem": MemBackend}
    for name in ("check", "get", "set", "unset", "push", "pop"):
        FUNCTIONS[name] = contracted(getattr(ss, f"{name}_states"))


def run_case(case, store_spec):
    """Execute one call on a store; returns (problem or None, new store spec)."""
    global STORE
    STORE = Store(store_spec)
    del CALLS[:]
    del SCOPES_SEEN[:]
    del LOCATIONS_SEEN[:]
    model_store = Store(store_spec)
    model_calls, outcome = model_run(case, model_store)
    model_calls = normalise(model_calls)
    PREDICTION["calls"], PREDICTION["store"] = model_calls, model_store.snapshot()
    params = build_params(case)
    env = FakeEnv()
    observed = None
    try:
        value = FUNCTIONS[case["op"]](params, env)
        observed = ("value", bool(value)) if case["op"] == "check" else "ok"
    except PostBroken:
        observed = "post"
    except exceptions.TestAbortError:
        observed = "abort"
    except exceptions.TestError:
        observed = "error"
    except Misuse as error:
        observed = f"misuse: {error}"
    except Exception as error:
        observed = f"exception {type(error).__name__}: {error}"
    after = STORE.snapshot()
    real_calls = list(CALLS)
    CALLS[:] = normalise(CALLS)
    problem = None
    if observed == "post" or (observed == outcome and (CALLS != model_calls or after != model_store.snapshot())):
        first = next((i for i, (a, b) in enumerate(itertools.zip_longest(CALLS, model_calls)) if a != b), None)
        problem = ("backend calls or resulting store differ from the policy table model",
                   f"outcome {outcome}; first differing call #{first}: real {CALLS[first] if first is not None and first < len(CALLS) else None} "
                   f"model {model_calls[first] if first is not None and first < len(model_calls) else None}; "
                   f"real calls {CALLS}; model calls {model_calls}; real store {after}; model store {model_store.snapshot()}")
    elif observed != outcome:
        problem = (f"outcome differs: real {str(observed).split(':')[0]} vs model {outcome}",
                   f"real outcome {observed}, model {outcome}; real calls {CALLS}; model calls {model_calls}")
    if problem is None and case.get("pool_scope"):
        # listing, fetching, saving and removing a state must reach the backend with the configured scope (only the forced
        # creation of a root is local by design): a pool-aware backend looks into other places with another scope
        EVALS["scope_observations"] += len(SCOPES_SEEN)
        wrong = [entry for entry in SCOPES_SEEN if entry[2] != case["pool_scope"]]
        if wrong:
            problem = ("a state operation reached the backend with another pool_scope than the configured one",
                       f"configured {case['pool_scope']!r}; {wrong[:3]}")
    if problem is None and case.get("locations") and case["op"] in ("get", "set", "unset"):
        # whether the state is there is looked up where the operation will act
        EVALS["location_observations"] += len(LOCATIONS_SEEN)
        wrong = [entry for entry in LOCATIONS_SEEN if entry[1] != case["locations"]["op"]]
        if wrong:
            problem = ("the presence of a state was looked up in another location than the one the operation addresses",
                       f"{case['op']}_location {case['locations']['op']!r}, show_location {case['locations']['show']!r}; looked up with {wrong[:3]}")
    return problem, after


def classify(case, problem):
    """Known-finding mechanism keys (by mechanism, never by values)."""
    op = case["op"]
    filtered = any(spec.get("readonly") for spec in case["objects"].values()) or case.get("skip_types")
    if op in ("push", "pop") and filtered:
        return f"{op}_states ignores skip_types / image_readonly filters"
    return f"{op}: {problem[0]}"


# ----------------------------------------------------------------------------------------------------
# workloads
# ----------------------------------------------------------------------------------------------------

LETTERS = ["a", "r", "i", "f", "x"]


def enumerate_single(verdict):
    """Single object, single call: the whole table."""
    for op in ("get", "set", "unset"):
        for l1, l2 in itertools.product(LETTERS, LETTERS):
            for root_present, state_present in ((True, True), (True, False), (False, False)):
                for state in ("s1", "root"):
                    for last in ("nets", "vms", "images"):
                        for check_mode in (None, "rr", "ff", "fr", "rx"):
                            key = {"nets": "net:net1", "vms": "vm1", "images": "vm1/image1"}[last]
                            spec = {"state": state, "mode": l1 + l2}
                            if check_mode:
                                spec["check_mode"] = check_mode
                            case = {"op": op, "vms": ["vm1"], "images": {"vm1": ["image1"]}, "objects": {key: spec}}
                            store = {key: {"root": root_present, "states": ["s1"] if state_present else []}}
                            yield case, store
    for op in ("check", "push", "pop"):
        for root_present, state_present in ((True, True), (True, False), (False, False)):
            for state in ("s1", "root", "boot"):
                for last in ("nets", "vms", "images"):
                    for check_mode in (None, "rr", "ff", "fr", "rx"):
                        key = {"nets": "net:net1", "vms": "vm1", "images": "vm1/image1"}[last]
                        spec = {"state": state}
                        if check_mode:
                            spec["check_mode"] = check_mode
                        case = {"op": op, "vms": ["vm1"], "images": {"vm1": ["image1"]}, "objects": {key: spec}}
                        store = {key: {"root": root_present, "states": ["s1"] if state_present else []}}
                        yield case, store


def random_layout(rng):
    vms = [f"vm{i + 1}" for i in range(rng.randint(1, 3))]
    images = {vm: [f"image{i + 1}" for i in range(rng.randint(1, 2))] for vm in vms}
    return vms, images


def random_call(rng, vms, images, op=None, hostile=True):
    op = op or rng.choice(["check", "get", "set", "unset", "push", "pop", "get", "set", "unset"])
    keys = [k for k, _, _ in addressed_objects({"vms": vms, "images": images})]
    objects = {}
    for key in keys:
        if rng.random() < 0.55:
            spec = {"state": rng.choice(["s1", "s2", "s3", "s1", "root", "0root", "boot"] if op not in ("push", "pop")
                                         else ["s1", "s2", "s3", "root"])}
            if op in ("get", "set", "unset") and rng.random() < (0.6 if hostile else 0.3):
                spec["mode"] = rng.choice(LETTERS if hostile else "arif") + rng.choice(LETTERS if hostile else "arif")
            if op == "push" and rng.random() < 0.3:
                spec["mode"] = rng.choice(["af", "ff", "rf", "aa"])
            if rng.random() < 0.3:
                spec["check_mode"] = rng.choice(["rf", "rr", "ff", "fr", "rx"] if hostile else ["rf", "rr", "ff", "fr"])
            if "/" in key and rng.random() < 0.1:
                spec["readonly"] = True
            objects[key] = spec
    # parameters of objects outside of the selection must never matter
    if rng.random() < 0.3:
        objects_outside = {"vm9": {"state": "s1"}, "vm1/image9": {"state": "s2"}}
    else:
        objects_outside = {}
    objects.update(objects_outside)
    case = {"op": op, "vms": vms, "images": images, "objects": objects}
    if rng.random() < 0.5:
        case["pool_scope"] = rng.choice(["own", "own shared", "own swarm cluster shared", "swarm shared"])
    if op in ("get", "set", "unset") and rng.random() < 0.3:
        case["locations"] = {"show": ":/mnt/local/images/shared", "op": rng.choice([":/mnt/local/images/shared net2:/mnt/local/images/swarm",
                                                                                  "net2:/mnt/local/images/swarm", ":/mnt/local/images/shared"])}
    if rng.random() < 0.25:
        case["skip_types"] = rng.sample(["nets", "nets/vms", "nets/vms/images"], rng.randint(1, 2))
    return case


def random_store(rng, vms, images):
    store = {}
    for key, _, _ in addressed_objects({"vms": vms, "images": images}):
        root = rng.random() < 0.75
        store[key] = {"root": root, "states": [s for s in ("s1", "s2", "s3") if root and rng.random() < 0.4]}
    return store


def main():
    args = parse_args()
    verdict = Verdict(PROP, args, rule=(
        "case = one call of check/get/set/unset/push/pop_states (per-object state, 2-letter mode over {a,r,i,f,x}, check mode, "
        "skip_types, read-only images, 1..3 vms x 1..2 images + the net) on a store (root flag + state names per object); the "
        "single-object single-call table is enumerated completely, multi-object calls and sequences of up to 12 calls are random; "
        "non-trivial = a force/abort/invalid row is consulted or >=2 objects are addressed; distinct by (op, per-object modes, presence, types)"))
    verdict.assumptions = [
        "the reference model is the README table plus: a root flag per object, unset_root removes the object's states, "
        "check_mode second letter r/f (else TestError) when the root is missing and first letter f = recreate the root",
        "mutations made for earlier objects of the same call under their own force rows are table-conformant (counted, not judged)",
        "the in-memory backend is not a SourcedStateBackend (so 'f.' overwrites by unset+set)"]
    install()
    rng = rng_for(args, PROP)
    quick = args.tier == "quick"

    def record(case, store_before, problem, nontrivial, signature):
        verdict.case(signature=signature, nontrivial=nontrivial)
        if problem is not None:
            verdict.violation(classify(case, problem), problem[1], {"case": case, "store": store_before})

    def add_outside(case, params_case):
        return params_case

    if args.replay:
        witness = load_replay(args.replay)["witness"]
        if "sequence" in witness:
            store = witness["store"]
            for case in witness["sequence"]:
                problem, store_after = run_case(case, store)
                record(case, store, problem, True, [case, store])
                store = store_after
        else:
            problem, _ = run_case(witness["case"], witness["store"])
            record(witness["case"], witness["store"], problem, True, [witness["case"], witness["store"]])
        sys.exit(verdict.finish())

    # 1. the complete single-object single-call table
    for case, store in enumerate_single(verdict):
        problem, _ = run_case(case, store)
        verdict.count("enumerated_single_calls")
        record(case, store, problem, True, [case, store])
    # 2. random multi-object calls on random stores
    for _ in range(6000 if quick else 150000):
        vms, images = random_layout(rng)
        case, store = random_call(rng, vms, images), random_store(rng, vms, images)
        # parameters for unselected objects are added to the call but not to the model's view
        problem, _ = run_case(case, store)
        verdict.count("random_multi_object_calls")
        n_objects = len([1 for k, s in case["objects"].items() if s.get("state") and k not in ("vm9", "vm1/image9")])
        if n_objects >= 2:
            verdict.count("calls_addressing_2plus_objects")
        record(case, store, problem, n_objects >= 2 or any("mode" in s for s in case["objects"].values()),
               [case, store])
        if len(verdict.samples) < 3 and n_objects >= 2:
            verdict.samples.append({"case": case, "store": store})
    # 3. sequences of calls against the model (the store carries over)
    for _ in range(1500 if quick else 40000):
        vms, images = random_layout(rng)
        store = random_store(rng, vms, images)
        sequence, first_store = [], store
        for _ in range(rng.randint(2, 12)):
            case = random_call(rng, vms, images, hostile=rng.random() < 0.3)
            sequence.append(case)
            problem, store_after = run_case(case, store)
            verdict.count("sequence_steps")
            if problem is not None:
                verdict.violation(classify(case, problem), problem[1], {"sequence": sequence, "store": first_store})
                break
            store = store_after
        verdict.case(signature=["seq", sequence, first_store], nontrivial=True)
        verdict.count("sequences")
    verdict.count("icontract_postconditions_evaluated", EVALS["postconditions"])
    verdict.count("pool_scope_observations", EVALS["scope_observations"])
    verdict.count("lookup_location_observations", EVALS["location_observations"])
    verdict.extra["enumerated_table_complete"] = True
    sys.exit(verdict.finish(min_counters=["icontract_postconditions_evaluated", "enumerated_single_calls", "sequence_steps"]))


if __name__ == "__main__":
    main()
