"""
C13 - pool access respects the enabled scopes and prefers the closest source.

Layer 1: the real SourcedStateBackend.show/get/set/unset and RootSourcedStateBackend.*_root run with a
recording stub transport and stub local hooks (class attributes transport/_show/_get/_set/_unset/_check_root...),
over the power set of scopes x generated source lists; sources are generated with a *label* (own / shared /
swarm / cluster) and the oracle judges the recorded transport calls by label, never by re-deriving the scope
from the parameters the way pool.py does.
Layer 2: the real QCOW2ImageTransfer stays the transport; its `ops` is an in-memory file table and
`get_dependency` a generated backing-chain table; oracle on compare_chain and on what a get downloads.
"""

import itertools
import os
import sys

from virttest.utils_params import Params

from avocado_i2n.states import pool

from vlib.common import Verdict, parse_args, rng_for, load_replay

PROP = "C13"
SHARED, SWARM = "/mnt/local/images/shared", "/mnt/local/images/swarm"
SCOPES = ["own", "swarm", "cluster", "shared"]
RANK = {"own": 4, "shared": 3, "swarm": 2, "cluster": 1}

LOG = []
WORLD = {}


# ---------------------------------------------------------------------------------------------------
# layer 1 stubs
# ---------------------------------------------------------------------------------------------------

class StubTransport:

    @classmethod
    def show(cls, params, object=None):
        LOG.append(("t.show", params["show_location"]))
        return list(WORLD["pools"].get(params["show_location"], []))

    @classmethod
    def get(cls, params, object=None):
        LOG.append(("t.get", params["get_location"]))

    @classmethod
    def set(cls, params, object=None):
        LOG.append(("t.set", params["set_location"]))

    @classmethod
    def unset(cls, params, object=None):
        LOG.append(("t.unset", params["unset_location"]))

    @classmethod
    def compare_chain(cls, state, cache_dir, pool_dir, params):
        LOG.append(("t.compare", pool_dir))
        return WORLD["cache_valid"]

    @classmethod
    def check_root(cls, params, object=None):
        LOG.append(("t.check_root", None))
        return WORLD["pool_root"]

    @classmethod
    def get_root(cls, params, object=None):
        LOG.append(("t.get_root", None))

    @classmethod
    def set_root(cls, params, object=None):
        LOG.append(("t.set_root", None))

    @classmethod
    def unset_root(cls, params, object=None):
        LOG.append(("t.unset_root", None))

    class ops:
        @staticmethod
        def compare(cache_path, pool_path, params):
            LOG.append(("ops.compare", pool_path))
            return WORLD["root_files_equal"].get(os.path.basename(cache_path), True)


class Stub(pool.SourcedStateBackend):
    transport = StubTransport

    @classmethod
    def _show(cls, params, object=None):
        LOG.append(("l.show", None))
        return list(WORLD["cache"])

    @classmethod
    def _get(cls, params, object=None):
        LOG.append(("l.get", None))

    @classmethod
    def _set(cls, params, object=None):
        LOG.append(("l.set", None))

    @classmethod
    def _unset(cls, params, object=None):
        LOG.append(("l.unset", None))


class RootStub(pool.RootSourcedStateBackend):
    transport = StubTransport

    @classmethod
    def _check_root(cls, params, object=None):
        LOG.append(("l.check_root", None))
        return WORLD["local_root"]

    @classmethod
    def _get_root(cls, params, object=None):
        LOG.append(("l.get_root", None))

    @classmethod
    def _set_root(cls, params, object=None):
        LOG.append(("l.set_root", None))

    @classmethod
    def _unset_root(cls, params, object=None):
        LOG.append(("l.unset_root", None))


def source_string(source):
    return f"{source['net']}:{source['path']}"


def base_params(case):
    params = Params()
    own = case["own"]
    params.update({"nets": own["net"], "nets_gateway": own["gateway"], "nets_host": own["host"],
                   "shared_pool": SHARED, "swarm_pool": SWARM, "pool_scope": " ".join(case["scopes"]),
                   "vms": "vm1", "images": "image1", "object_type": case.get("object_type", "nets/vms/images"),
                   "object_id": "vm1-id", "vms_base_dir": "/images", "image_name": "image1", "image_format": "qcow2"})
    for source in case["sources"]:
        if source["net"]:
            params[f"nets_gateway_{source['net']}"] = source["gateway"]
            params[f"nets_host_{source['net']}"] = source["host"]
    return params


def draw_sources(rng, own, number):
    """Labelled sources; the label is what the oracle uses."""
    sources = []
    used_nets = {own["net"]}
    kinds = rng.choices(["shared", "own", "own_same_host", "swarm", "cluster", "swarm", "cluster"], k=number)
    for kind in kinds:
        if kind == "shared":
            source = {"label": "shared", "net": "", "path": SHARED}
        elif kind == "own":
            source = {"label": "own", "net": own["net"], "gateway": own["gateway"], "host": own["host"], "path": SWARM}
        else:
            net = rng.choice([n for n in ("net1", "net2", "net3", "net4", "net6", "net7", "net8", "net9") if n not in used_nets])
            used_nets.add(net)
            if kind == "own_same_host":
                # another worker id on the very same host with the same local pool path: physically the own pool
                source = {"label": "own", "net": net, "gateway": own["gateway"], "host": own["host"], "path": SWARM}
            elif kind == "swarm":
                source = {"label": "swarm", "net": net, "gateway": own["gateway"], "host": own["host"] + "x" + net, "path": SWARM}
            else:
                source = {"label": "cluster", "net": net, "gateway": "other." + net + ".lan",
                          "host": rng.choice([own["host"], "h" + net]), "path": SWARM}
        if source_string(source) not in [source_string(s) for s in sources]:
            sources.append(source)
    return sources


# ---------------------------------------------------------------------------------------------------
# layer 1 oracle
# ---------------------------------------------------------------------------------------------------

def judge_layer1(case, outcome, problems):
    scopes, sources, op = set(case["scopes"]), case["sources"], case["op"]
    by_string = {source_string(s): s for s in sources}
    permitted = [s for s in sources if s["label"] != "own" and s["label"] in scopes]
    permitted_strings = {source_string(s) for s in permitted}
    contacted = [loc for kind, loc in LOG if kind.startswith("t.") and loc is not None]
    state = case["state"]

    def need(cond, mech, msg):
        if not cond:
            problems.append((mech, f"{msg}; log {LOG}"))

    for location in contacted:
        label = by_string[location]["label"] if location in by_string else "unlisted"
        need(location in permitted_strings, f"{op}: contacted a source whose scope is not enabled (or the own pool through the transport)",
             f"contacted {location} labelled {label} with scopes {sorted(scopes)}")
    local_kinds = [kind for kind, _ in LOG if kind.startswith("l.") and kind != "l.show"]
    if op == "show":
        need(isinstance(outcome, list), "show: exception", f"outcome {outcome}")
        if isinstance(outcome, list):
            allowed = set(WORLD["cache"]) if "own" in scopes else set()
            everywhere = None
            for s in permitted:
                listing = set(WORLD["pools"].get(source_string(s), []))
                allowed |= listing
                everywhere = listing if everywhere is None else everywhere & listing
            need(set(outcome) <= allowed, "show: reported a state that is neither in the enabled cache nor in a permitted source",
                 f"reported {sorted(outcome)} allowed {sorted(allowed)}")
            must = (set(WORLD["cache"]) if "own" in scopes else set()) | (everywhere or set())
            need(must <= set(outcome), "show: a state of the enabled cache / of every permitted source is not reported",
                 f"reported {sorted(outcome)} must include {sorted(must)}")
            need({loc for k, loc in LOG if k == "t.show"} == permitted_strings, "show: not every permitted source was listed",
                 f"listed {[loc for k, loc in LOG if k == 't.show']} permitted {sorted(permitted_strings)}")
            need(("l.show", None) in LOG if "own" in scopes else ("l.show", None) not in LOG,
                 "show: local cache consulted iff own scope enabled", "")
    elif op == "get":
        need(outcome is None, "get: exception", f"outcome {outcome}")
        contacted_set = set(contacted)
        if permitted:
            best = max(RANK[s["label"]] for s in permitted)
            need(len(contacted_set) == 1, "get: not exactly one source contacted", f"contacted {sorted(contacted_set)}")
            for location in contacted_set:
                if location in by_string:
                    need(RANK[by_string[location]["label"]] == best, "get: a farther source was used although a closer one is permitted",
                         f"used {location} ({by_string[location]['label']}), closest permitted rank {best}")
            if len(contacted_set) == 1:
                location = next(iter(contacted_set))
                there = state in WORLD["pools"].get(location, [])
                local = state in WORLD["cache"]
                expect_download = there and (not local or not WORLD["cache_valid"])
                need((("t.get", location) in LOG) == expect_download, "get: download decision wrong",
                     f"state there={there} local={local} cache_valid={WORLD['cache_valid']} downloaded={('t.get', location) in LOG}")
                if there and local:
                    need(("t.compare", location) in LOG, "get: local copy not compared with the source", "")
        else:
            need(not contacted_set, "get: source contacted although none is permitted", f"{sorted(contacted_set)}")
        need((local_kinds == ["l.get"]) if "own" in scopes else (local_kinds == []), "get: local fetch iff own scope enabled", f"{local_kinds}")
    elif op == "set":
        local = state in WORLD["cache"]
        if "own" not in scopes and not local:
            need(isinstance(outcome, RuntimeError), "set: updating a pool without the local state is not refused", f"outcome {outcome!r}")
            need(not any(k == "t.set" for k, _ in LOG), "set: pool updated although refused", "")
        else:
            need(outcome is None, "set: exception", f"outcome {outcome!r}")
            need({loc for k, loc in LOG if k == "t.set"} == permitted_strings and
                 len([1 for k, _ in LOG if k == "t.set"]) == len(permitted_strings),
                 "set: not exactly every permitted mirror reached", f"reached {[loc for k, loc in LOG if k == 't.set']} permitted {sorted(permitted_strings)}")
            need((local_kinds == ["l.set"]) if "own" in scopes else (local_kinds == []), "set: local save iff own scope enabled", f"{local_kinds}")
    elif op == "unset":
        need(outcome is None, "unset: exception", f"outcome {outcome!r}")
        need({loc for k, loc in LOG if k == "t.unset"} == permitted_strings and
             len([1 for k, _ in LOG if k == "t.unset"]) == len(permitted_strings),
             "unset: not exactly every permitted mirror reached", f"reached {[loc for k, loc in LOG if k == 't.unset']} permitted {sorted(permitted_strings)}")
        need((local_kinds == ["l.unset"]) if "own" in scopes else (local_kinds == []), "unset: local removal iff own scope enabled", f"{local_kinds}")


def judge_root(case, outcome, problems):
    scope, op = " ".join(case["scopes"]), case["op"]
    kinds = [k for k, _ in LOG]

    def need(cond, mech, msg=""):
        if not cond:
            problems.append((mech, f"{msg}; scope '{scope}' world {WORLD} log {LOG} outcome {outcome!r}"))
    t_kinds = [k for k in kinds if k.startswith("t.") or k.startswith("ops.")]
    if "own" == scope:
        need(not t_kinds, f"{op}: pool contacted with only the own scope enabled")
    if op == "check_root":
        if scope == "own":
            need(outcome == WORLD["local_root"], "check_root: own scope answer")
        else:
            expected = WORLD["local_root"] or (WORLD["pool_root"] and case["object_type"] not in ("vms", "nets/vms"))
            need(bool(outcome) == bool(expected), "check_root: answer")
    elif op == "get_root":
        need(outcome is None, "get_root: exception")
        if "own" not in case["scopes"]:
            need("t.get_root" in kinds, "get_root: without own scope the pool root is fetched")
        elif scope == "own":
            need(kinds == ["l.get_root"], "get_root: own scope only uses the local root")
        else:
            differs = not all(WORLD["root_files_equal"].values())
            expect_download = WORLD["pool_root"] and (not WORLD["local_root"] or differs)
            need(("t.get_root" in kinds) == bool(expect_download), "get_root: download iff pool root exists and local is missing or differs",
                 f"expected download {expect_download}")
            need("l.get_root" in kinds, "get_root: local root not provided")
    elif op == "set_root":
        if scope == "own":
            need(outcome is None and kinds == ["l.set_root"], "set_root: own scope sets the local root only")
        elif scope == "shared":
            if not WORLD["local_root"]:
                need(isinstance(outcome, RuntimeError) and "t.set_root" not in kinds,
                     "set_root: updating the pool without a local root is not refused")
            else:
                need(outcome is None and "t.set_root" in kinds and "l.set_root" not in kinds, "set_root: shared scope uploads the root")
        else:
            need(isinstance(outcome, RuntimeError) and not [k for k in kinds if "set_root" in k], "set_root: ambiguous scope not refused")
    elif op == "unset_root":
        if scope == "own":
            need(outcome is None and kinds == ["l.unset_root"], "unset_root: own scope")
        elif scope == "shared":
            need(outcome is None and kinds == ["t.unset_root"], "unset_root: shared scope")
        else:
            need(isinstance(outcome, RuntimeError) and not [k for k in kinds if "unset_root" in k], "unset_root: ambiguous scope not refused")


def run_layer1(case, verdict):
    del LOG[:]
    WORLD.clear()
    WORLD.update(case["world"])
    params = base_params(case)
    op = case["op"]
    problems = []
    if op in ("show", "get", "set", "unset"):
        params[f"{op}_location"] = " ".join(source_string(s) for s in case["sources"])
        if op != "show":
            params[f"{op}_state"] = case["state"]
        try:
            outcome = getattr(Stub, op)(params, None)
        except Exception as error:
            outcome = error
        judge_layer1(case, outcome, problems)
        verdict.count("transport_calls_audited", len([1 for k, _ in LOG if k.startswith("t.")]))
    else:
        for image, equal in case["world"]["root_files_equal"].items():
            pass
        params["images"] = " ".join(i[:-6] for i in case["world"]["root_files_equal"])
        for name in case["world"]["root_files_equal"]:
            params[f"image_name_{name[:-6]}"] = name[:-6]
        try:
            outcome = getattr(RootStub, op)(params, None)
        except Exception as error:
            outcome = error
        judge_root(case, outcome, problems)
        verdict.count("root_calls_audited", len(LOG))
    return problems


# ---------------------------------------------------------------------------------------------------
# layer 2: real QCOW2ImageTransfer over an in-memory file table
# ---------------------------------------------------------------------------------------------------

FILES = {}
OPS_LOG = []


class MemOps:

    @classmethod
    def list_paths(cls, pool_path, params):
        prefix = pool_path.rstrip("/") + "/"
        return sorted({p[len(prefix):].split("/")[0] for p in FILES if p.startswith(prefix)})

    @classmethod
    def compare(cls, cache_path, pool_path, params):
        OPS_LOG.append(("compare", cache_path, pool_path))
        return FILES.get(":" + cache_path if ":" not in cache_path else cache_path, "") == FILES.get(pool_path, "")

    @classmethod
    def download(cls, cache_path, pool_path, params):
        OPS_LOG.append(("download", cache_path, pool_path))
        if pool_path not in FILES:
            raise FileNotFoundError(pool_path)
        FILES[":" + cache_path] = FILES[pool_path]

    @classmethod
    def upload(cls, cache_path, pool_path, params):
        OPS_LOG.append(("upload", cache_path, pool_path))
        FILES[pool_path] = FILES[":" + cache_path]

    @classmethod
    def delete(cls, pool_path, params):
        OPS_LOG.append(("delete", pool_path))
        del FILES[pool_path]


CHAIN = {}


class MemTransfer(pool.QCOW2ImageTransfer):
    ops = MemOps

    @classmethod
    def get_dependency(cls, state, params):
        return CHAIN.get(state, "")


class Layer2Backend(pool.SourcedStateBackend):
    transport = MemTransfer

    @classmethod
    def _show(cls, params, object=None):
        image = params["images"].split()[0] if params["object_type"].endswith("vms") else params["images"]
        tag = f"{params['object_id']}/{image}"
        prefix = f":{params['swarm_pool']}/{tag}/"
        return sorted({p[len(prefix):].replace(".qcow2", "") for p in FILES if p.startswith(prefix) and p.endswith(".qcow2")})

    @classmethod
    def _get(cls, params, object=None):
        OPS_LOG.append(("local_get",))


def chain_files(case, location):
    """All files a state's backing chain consists of at a location (harness ground truth)."""
    files = []
    state = case["state"]
    first = True
    while state:
        for image in case["images"]:
            files.append(f"{location}/vm1-id/{image}/{state}.qcow2")
        if first and case["vm_state"]:
            files.append(f"{location}/vm1-id/{state}.state")
        first = False
        state = case["chain"].get(state, "")
    return files


def run_layer2(case, verdict):
    FILES.clear()
    FILES.update(case["files"])
    CHAIN.clear()
    CHAIN.update(case["chain"])
    del OPS_LOG[:]
    problems = []
    params = Params({"nets": "net1", "nets_gateway": "", "nets_host": "c101", "shared_pool": SHARED, "swarm_pool": SWARM,
                     "pool_scope": "own shared", "vms": "vm1", "images": " ".join(case["images"]), "object_id": "vm1-id",
                     "object_type": "nets/vms" if case["vm_state"] else "nets/vms/images",
                     "get_location": ":" + SHARED, "get_state": case["state"], "vms_base_dir": "/images"})
    if not case["vm_state"]:
        params["images"] = case["images"][0]
        case = dict(case, images=[case["images"][0]])
    source = ":" + SHARED
    cache_files = chain_files(case, ":" + SWARM)
    pool_files = chain_files(case, source)
    identical = all(FILES.get(c, "") == FILES.get(p, "") for c, p in zip(cache_files, pool_files))
    # (a) compare_chain
    try:
        answer = MemTransfer.compare_chain(case["state"], SWARM, source, params)
        verdict.count("compare_chain_compared")
        if bool(answer) != identical:
            problems.append(("compare_chain answer differs from file-by-file comparison of the whole backing chain",
                             f"answer {answer}, identical {identical}, chain {case['chain']}, files {case['files']}"))
    except Exception as error:
        problems.append((f"compare_chain: exception {type(error).__name__}", str(error)))
    # (c) the listing of the pool: a state is listed iff its own file is there, whatever else lies around
    try:
        show_params = params.copy()
        show_params["show_location"] = source
        listed = set(MemTransfer.show(show_params, None))
        directory = f"{source}/vm1-id" + ("" if case["vm_state"] else f"/{case['images'][0]}")
        suffix = ".state" if case["vm_state"] else ".qcow2"
        for name in case.get("names", []):
            verdict.count("pool_listing_names_compared")
            present = f"{directory}/{name}{suffix}" in FILES
            if (name in listed) != present:
                problems.append(("pool listing reports a state whose file is not in the pool (or misses one that is)",
                                 f"{name}: listed {name in listed}, file present {present}; directory holds "
                                 f"{sorted(p[len(directory) + 1:] for p in FILES if p.startswith(directory + '/'))}"))
                break
    except Exception as error:
        problems.append((f"show: exception {type(error).__name__}", str(error)))
    # (b) a get through the real SourcedStateBackend
    del OPS_LOG[:]
    pool_has = all(p in FILES for p in pool_files)
    local_has = case["state"] in Layer2Backend._show(params)
    in_pool_listing = f"{source}/vm1-id/{case['images'][0]}/{case['state']}.qcow2" in FILES if not case["vm_state"] else \
        f"{source}/vm1-id/{case['state']}.state" in FILES
    if pool_has or not in_pool_listing:
        try:
            Layer2Backend.get(params, None)
            downloads = [entry for entry in OPS_LOG if entry[0] == "download"]
            verdict.count("gets_compared")
            if in_pool_listing and local_has and identical:
                if downloads:
                    problems.append(("get: valid cache downloaded again", f"downloads {downloads}"))
                verdict.count("gets_with_valid_cache")
            elif in_pool_listing:
                wanted = sorted(zip([c[1:] for c in cache_files], pool_files))
                got = sorted((entry[1], entry[2]) for entry in downloads)
                if got != wanted:
                    problems.append(("get: invalid or missing cache does not download exactly the chain's files", f"got {got} wanted {wanted}"))
                if not all(FILES.get(c, "") == FILES.get(p, "") for c, p in zip(cache_files, pool_files)):
                    problems.append(("get: cache differs from source after the download", ""))
                verdict.count("gets_with_invalid_cache")
            else:
                if downloads:
                    problems.append(("get: downloaded although the source does not list the state", f"{downloads}"))
        except Exception as error:
            problems.append((f"get: exception {type(error).__name__}", str(error)))
    return problems


def draw_layer2(rng):
    images = [f"image{i + 1}" for i in range(rng.randint(1, 2))]
    depth = rng.randint(1, 4)
    states = [f"s{i}" for i in range(depth)]
    chain = {states[i]: states[i + 1] for i in range(depth - 1)}
    vm_state = rng.random() < 0.4
    files = {}
    case = {"images": images, "state": states[0], "chain": chain, "vm_state": vm_state}
    for location in (":" + SHARED, ":" + SWARM):
        for path in chain_files(case, location):
            files[path] = "v1"
    mode = rng.random()
    cache = [p for p in files if p.startswith(":" + SWARM)]
    if mode < 0.3:
        pass                                    # valid cache
    elif mode < 0.6:
        files[rng.choice(cache)] = "v2"         # one differing file anywhere in the chain
    elif mode < 0.8:
        del files[rng.choice(cache)]            # one missing file
    else:
        for p in cache:                         # no cache at all
            del files[p]
    if rng.random() < 0.08:
        for p in [p for p in files if p.startswith(":" + SHARED)]:
            del files[p]                        # state not in the pool
    # what transfers leave behind in a pool directory: lock files (also of states whose image is gone), unfinished copies
    directory = f":{SHARED}/vm1-id" + ("" if vm_state else f"/{images[0]}")
    suffix = ".state" if vm_state else ".qcow2"
    leftovers = {}
    for name in states + ["gone1", "gone2"]:
        if rng.random() < 0.5:
            leftovers[f"{directory}/{name}{suffix}.lock"] = ""
        if rng.random() < 0.1:
            leftovers[f"{directory}/{name}{suffix}.part"] = "v0"
    files.update(leftovers)
    case["files"] = files
    case["names"] = states + ["gone1", "gone2"]
    return case


# ---------------------------------------------------------------------------------------------------

def main():
    args = parse_args()
    verdict = Verdict(PROP, args, rule=(
        "layer 1 case = (operation, subset of the four scopes, ordered list of labelled sources, placement of the state in cache "
        "and sources, cache validity); all source lists of <=3 sources over the 5 source kinds x all 16 scope subsets x 4 operations "
        "are enumerated with sampled placements, larger lists are random; root case = scope x local/pool root x image equality; layer 2 "
        "case = backing chain depth 1-4 x 1-2 images x vm/image state x cache state. non-trivial = >=2 sources or a disabled scope; "
        "distinct by (scopes, source kinds, placement, validity)"))
    verdict.assumptions = ["a source's scope is its generation label (own/shared/swarm/cluster), not recomputed from parameters",
                           "closest = own path > same host > same gateway > other gateway; ties may resolve either way",
                           "show: reported states must lie in cache ∪ permitted sources and include cache ∪ (states in every permitted source)"]
    rng = rng_for(args, PROP)
    quick = args.tier == "quick"

    def handle(case, problems, signature, nontrivial):
        verdict.case(signature=signature, nontrivial=nontrivial,
                     sample=case if nontrivial and len(verdict.samples) < 3 and rng.random() < 0.01 else None)
        seen = set()
        for mechanism, message in problems:
            if mechanism not in seen:
                seen.add(mechanism)
                verdict.violation(mechanism, message, {"case": case})

    if args.replay:
        case = load_replay(args.replay)["witness"]["case"]
        problems = run_layer2(case, verdict) if "chain" in case else run_layer1(case, verdict)
        handle(case, problems, case, True)
        sys.exit(verdict.finish())

    own = {"net": "net5", "gateway": "gw.lan", "host": "c105"}
    kinds = {
        "shared": {"label": "shared", "net": "", "path": SHARED},
        "own": {"label": "own", "net": "net5", "gateway": "gw.lan", "host": "c105", "path": SWARM},
        "swarm1": {"label": "swarm", "net": "net1", "gateway": "gw.lan", "host": "c101", "path": SWARM},
        "swarm2": {"label": "swarm", "net": "net2", "gateway": "gw.lan", "host": "c102", "path": SWARM},
        "cluster": {"label": "cluster", "net": "net6", "gateway": "cluster2.net.lan", "host": "1", "path": SWARM},
    }
    scope_sets = [list(c) for n in range(len(SCOPES) + 1) for c in itertools.combinations(SCOPES, n)]
    # enumerated: all ordered lists of <=3 distinct source kinds x all scope subsets x 4 ops
    for n in range(0, 4):
        for combo in itertools.permutations(kinds, n):
            sources = [kinds[k] for k in combo]
            for scopes in scope_sets:
                for op in ("show", "get", "set", "unset"):
                    for _ in range(2 if quick else 6):
                        pools = {source_string(s): [st for st in ("s1", "s2") if rng.random() < 0.5] for s in sources}
                        world = {"pools": pools, "cache": [st for st in ("s1", "s2") if rng.random() < 0.5],
                                 "cache_valid": rng.random() < 0.5}
                        case = {"op": op, "scopes": scopes, "sources": sources, "own": own, "state": "s1", "world": world}
                        problems = run_layer1(case, verdict)
                        verdict.count("enumerated_source_lists")
                        handle(case, problems, [op, scopes, combo, world], len(sources) >= 2 or len(scopes) < 4)
    verdict.extra["enumerated"] = "all ordered lists of <=3 of 5 source kinds x 16 scope subsets x 4 operations (placements sampled)"
    # random larger lists and other own workers
    for _ in range(3000 if quick else 60000):
        own_r = rng.choice([{"net": "net1", "gateway": "", "host": "c101"}, {"net": "net7", "gateway": "cluster1.net.lan", "host": "2"},
                            {"net": "net0", "gateway": "", "host": ""}])
        sources = draw_sources(rng, own_r, rng.randint(0, 5))
        rng.shuffle(sources)
        scopes = rng.choice(scope_sets)
        pools = {source_string(s): [st for st in ("s1", "s2", "s3") if rng.random() < 0.5] for s in sources}
        world = {"pools": pools, "cache": [st for st in ("s1", "s2", "s3") if rng.random() < 0.5], "cache_valid": rng.random() < 0.5}
        case = {"op": rng.choice(["show", "get", "set", "unset"]), "scopes": scopes, "sources": sources, "own": own_r,
                "state": "s1", "world": world}
        problems = run_layer1(case, verdict)
        verdict.count("random_source_lists")
        handle(case, problems, case, len(sources) >= 2 or len(scopes) < 4)
    # root operations: enumerated
    for scopes in scope_sets:
        if not scopes:
            continue
        for op in ("check_root", "get_root", "set_root", "unset_root"):
            for local_root, pool_root in itertools.product([True, False], repeat=2):
                for equal in ([True], [False], [True, True], [True, False], [False, True]):
                    for object_type in ("nets/vms/images", "nets/vms"):
                        world = {"local_root": local_root, "pool_root": pool_root,
                                 "root_files_equal": {f"image{i + 1}.qcow2": e for i, e in enumerate(equal)}}
                        case = {"op": op, "scopes": scopes, "sources": [], "own": own, "world": world, "object_type": object_type}
                        problems = run_layer1(case, verdict)
                        verdict.count("enumerated_root_cases")
                        handle(case, problems, case, True)
    # layer 2
    for _ in range(3000 if quick else 60000):
        case = draw_layer2(rng)
        problems = run_layer2(case, verdict)
        verdict.count("layer2_cases")
        handle(case, problems, case, True)
    sys.exit(verdict.finish(min_counters=["transport_calls_audited", "root_calls_audited", "compare_chain_compared",
                                          "gets_with_valid_cache", "gets_with_invalid_cache"]))


if __name__ == "__main__":
    main()
