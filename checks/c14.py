"""
C14 - pool transfers are exact, never destroy data, and exclude each other.

Monitor (multi-process, real files, real fcntl): every history forks 2..8 processes that drive the real
TransferOps.{upload,download,delete}_local / {download,upload}_link on ONE pool path (each with its own cache
file).  Inside each process the names os/shutil/fcntl/crypto/time of states.pool are recording proxies that
stamp lock acquisition/release, hash, copy, unlink and symlink with time.monotonic_ns() (system wide) and
carry failpoints (sleep / raise / SIGKILL self) at the step boundaries of the critical section.
Offline oracles over the merged event log:
  * lock intervals of different processes never overlap; every copy/unlink/symlink/hash of the pool file
    lies inside a lock interval of its own process;
  * replaying the operations in lock order on a tiny sequential model (pool token, cache tokens, links)
    predicts every outcome and every final file content (unique tokens => a read identifies its write);
  * a transfer between equal sides issues no copy; link mode never replaces data nor uploads a link;
  * after an exception or SIGKILL at every failpoint the waiters still acquire the lock;
  * a waiter that gives up (RuntimeError) has touched nothing.
"""

import errno
import fcntl
import hashlib
import json
import os
import shutil
import signal
import sys
import tempfile
import time

from vlib.common import Verdict, parse_args, rng_for, load_replay
from vlib import par

PROP = "C14"
SCALE = 0.01          # one "second" of pool.py's waiting costs 10 ms
FAILPOINTS = ["after_acquire", "after_compare", "mid_copy", "after_copy", "before_unlock"]
FAULTS = ["sleep", "raise", "kill"]
OPS = ["upload_local", "download_local", "delete_local", "download_link", "upload_link"]


class Injected(Exception):
    """Raised by a failpoint (never by the code under test)."""


# -----------------------------------------------------------------------------------------------------
# child side: recording proxies
# -----------------------------------------------------------------------------------------------------

class Recorder:
    def __init__(self, path, index):
        self.fd = open(path, "a", buffering=1)
        self.index = index
        self.op_index = None
        self.fault = None          # {"point":, "kind":, "secs":, "op":}
        self.hashes_in_op = 0

    def log(self, event, **extra):
        entry = {"t": time.monotonic_ns(), "p": self.index, "op": self.op_index, "ev": event}
        entry.update(extra)
        self.fd.write(json.dumps(entry) + "\n")

    def failpoint(self, point):
        fault = self.fault
        if not fault or fault["point"] != point or fault["op"] != self.op_index or fault.get("fired"):
            return
        fault["fired"] = True
        self.log("fault", point=point, kind=fault["kind"])
        if fault["kind"] == "sleep":
            time.sleep(fault["secs"] * SCALE)
        elif fault["kind"] == "raise":
            raise Injected(point)
        elif fault["kind"] == "kill":
            self.fd.flush()
            os.kill(os.getpid(), signal.SIGKILL)


def install_proxies(pool, recorder, pool_path):
    real_os, real_shutil, real_fcntl, real_crypto = os, shutil, fcntl, pool.crypto

    def on_pool(path):
        return os.path.abspath(path) == os.path.abspath(pool_path)

    class OsProxy:
        def __getattr__(self, name):
            return getattr(real_os, name)

        @staticmethod
        def unlink(path):
            recorder.log("unlink_start", path=path, pool=on_pool(path))
            real_os.unlink(path)
            recorder.log("unlink_end", path=path, pool=on_pool(path))

        @staticmethod
        def symlink(src, dst):
            recorder.log("symlink_start", src=src, dst=dst)
            real_os.symlink(src, dst)
            recorder.log("symlink_end", src=src, dst=dst)

    class ShutilProxy:
        def __getattr__(self, name):
            return getattr(real_shutil, name)

        @staticmethod
        def copy(src, dst):
            recorder.log("copy_start", src=src, dst=dst, pool=on_pool(src) or on_pool(dst))
            fault = recorder.fault
            if fault and fault["point"] == "mid_copy" and fault["op"] == recorder.op_index and not fault.get("fired"):
                data = open(src, "rb").read()
                with open(dst, "wb") as fd:
                    fd.write(data[:len(data) // 2])
                    fd.flush()
                    recorder.failpoint("mid_copy")
                    fd.write(data[len(data) // 2:])
            else:
                real_shutil.copy(src, dst)
            recorder.log("copy_end", src=src, dst=dst, pool=on_pool(src) or on_pool(dst))
            recorder.failpoint("after_copy")

    class FcntlProxy:
        def __getattr__(self, name):
            return getattr(real_fcntl, name)

        @staticmethod
        def lockf(fd, operation, *rest):
            if operation & real_fcntl.LOCK_UN:
                recorder.failpoint("before_unlock")
                recorder.log("unlock")
                return real_fcntl.lockf(fd, operation, *rest)
            recorder.log("lock_attempt")
            result = real_fcntl.lockf(fd, operation, *rest)
            recorder.log("lock_acquired")
            fault = recorder.fault
            if fault and fault.get("hold") and fault["op"] == recorder.op_index:
                # a slow holder: lets the waiters queue up behind it before the fault fires
                time.sleep(fault["hold"] * SCALE)
            recorder.failpoint("after_acquire")
            return result

    class CryptoProxy:
        def __getattr__(self, name):
            return getattr(real_crypto, name)

        @staticmethod
        def hash_file(path, *rest, **kwargs):
            recorder.log("hash_start", path=path, pool=on_pool(path))
            result = real_crypto.hash_file(path, *rest, **kwargs)
            recorder.log("hash_end", path=path, pool=on_pool(path))
            return result

    class TimeProxy:
        def __getattr__(self, name):
            return getattr(time, name)

        @staticmethod
        def sleep(seconds):
            time.sleep(seconds * SCALE)

    original_compare = pool.TransferOps.compare_local

    def compare_local(cache_path, pool_path_, params):
        result = original_compare(cache_path, pool_path_, params)
        recorder.log("compare", equal=bool(result))
        recorder.failpoint("after_compare")
        return result

    pool.os, pool.shutil, pool.fcntl, pool.crypto, pool.time = OsProxy(), ShutilProxy(), FcntlProxy(), CryptoProxy(), TimeProxy()
    pool.TransferOps.compare_local = staticmethod(compare_local)


def wait_for_event(logdir, index, event, timeout=20.0):
    deadline = time.time() + timeout
    path = os.path.join(logdir, f"p{index}.log")
    while time.time() < deadline:
        try:
            if f'"ev": "{event}"' in open(path).read():
                return True
        except FileNotFoundError:
            pass
        time.sleep(0.002)
    return False


def child_process(pool, history, index, workdir):
    from virttest.utils_params import Params
    spec = history["procs"][index]
    pool_path = os.path.join(workdir, "pool", "vm1", "image.qcow2")
    cache_path = os.path.join(workdir, f"cache{index}", "vm1", "image.qcow2")
    recorder = Recorder(os.path.join(workdir, "logs", f"p{index}.log"), index)
    recorder.fault = dict(spec["fault"]) if spec.get("fault") else None
    install_proxies(pool, recorder, pool_path)
    params = Params({"update_pool_timeout": str(spec.get("timeout", 300))})
    if spec.get("start_after") is not None:
        wait_for_event(os.path.join(workdir, "logs"), spec["start_after"], "lock_acquired")
    if spec.get("delay"):
        time.sleep(spec["delay"] * SCALE)
    for op_index, op in enumerate(spec["ops"]):
        recorder.op_index = op_index
        recorder.log("op_start", name=op)
        try:
            function = getattr(pool.TransferOps, op)
            if op == "delete_local":
                function(pool_path, params)
            else:
                function(cache_path, pool_path, params)
            recorder.log("op_end", name=op, outcome="ok")
        except Injected as error:
            recorder.log("op_end", name=op, outcome="injected")
        except BaseException as error:
            recorder.log("op_end", name=op, outcome=type(error).__name__, message=str(error)[:200])
    recorder.fd.flush()


# -----------------------------------------------------------------------------------------------------
# history execution (runs inside a par child; forks the history's processes)
# -----------------------------------------------------------------------------------------------------

_STATE = {}


def child_init():
    from avocado_i2n.states import pool
    _STATE["pool"] = pool


def token_bytes(token, size):
    unit = (token + "|").encode()
    return (unit * (size // len(unit) + 1))[:size]


def read_state(path):
    if os.path.islink(path):
        return {"link": os.readlink(path)}
    if not os.path.exists(path):
        return None
    data = open(path, "rb").read()
    return {"md5": hashlib.md5(data).hexdigest(), "size": len(data)}


def run_history(history):
    pool = _STATE["pool"]
    workdir = tempfile.mkdtemp(prefix="verif-c14-")
    try:
        os.makedirs(os.path.join(workdir, "logs"))
        pool_path = os.path.join(workdir, "pool", "vm1", "image.qcow2")
        os.makedirs(os.path.dirname(pool_path))
        size = history["size"]
        contents = {}
        if history["pool_initial"]:
            open(pool_path, "wb").write(token_bytes(history["pool_initial"], size))
            contents[history["pool_initial"]] = hashlib.md5(token_bytes(history["pool_initial"], size)).hexdigest()
        for index, spec in enumerate(history["procs"]):
            cache_path = os.path.join(workdir, f"cache{index}", "vm1", "image.qcow2")
            os.makedirs(os.path.dirname(cache_path))
            initial = spec["cache_initial"]
            if initial == "LINK":
                os.symlink(pool_path, cache_path)
            elif initial == "DEADLINK":
                os.symlink(os.path.join(workdir, "nowhere"), cache_path)
            elif initial:
                open(cache_path, "wb").write(token_bytes(initial, size))
                contents[initial] = hashlib.md5(token_bytes(initial, size)).hexdigest()
        pids = {}
        for index in range(len(history["procs"])):
            pid = os.fork()
            if pid == 0:
                code = 0
                try:
                    child_process(pool, history, index, workdir)
                except BaseException:
                    code = 3
                finally:
                    os._exit(code)
            pids[pid] = index
        deadline = time.time() + history.get("watchdog", 60)
        exits = {}
        while pids and time.time() < deadline:
            pid, status = os.waitpid(-1, os.WNOHANG)
            if pid == 0:
                time.sleep(0.005)
                continue
            exits[pids.pop(pid)] = status
        if pids:
            for pid in pids:
                try:
                    os.kill(pid, signal.SIGKILL)
                    os.waitpid(pid, 0)
                except OSError:
                    pass
            return {"inconclusive": "watchdog: history did not finish"}
        events = []
        for index in range(len(history["procs"])):
            path = os.path.join(workdir, "logs", f"p{index}.log")
            if os.path.exists(path):
                for line in open(path):
                    line = line.strip()
                    if line:
                        try:
                            events.append(json.loads(line))
                        except ValueError:
                            pass   # a line torn by SIGKILL
        events.sort(key=lambda e: e["t"])
        final = {"pool": read_state(pool_path),
                 "caches": [read_state(os.path.join(workdir, f"cache{i}", "vm1", "image.qcow2")) for i in range(len(history["procs"]))]}
        verdict = judge(history, events, final, contents, pool_path, exits)
        verdict["n_events"] = len(events)
        return verdict
    finally:
        shutil.rmtree(workdir, ignore_errors=True)


# -----------------------------------------------------------------------------------------------------
# oracles
# -----------------------------------------------------------------------------------------------------

TORN = "<torn>"


def judge(history, events, final, contents, pool_path, exits):
    problems, counters = [], {}
    nprocs = len(history["procs"])
    md5_of = dict(contents)                       # token -> md5
    token_of = {v: k for k, v in md5_of.items()}

    def problem(mechanism, message):
        problems.append([mechanism, message])

    # ---- lock intervals ------------------------------------------------------------------------------
    intervals = []                                # (start, end, proc, op)
    open_lock = {}
    last_event = {}
    for event in events:
        last_event[event["p"]] = event["t"]
        if event["ev"] == "lock_acquired":
            open_lock[event["p"]] = (event["t"], event["op"])
        elif event["ev"] == "unlock" and event["p"] in open_lock:
            start, op = open_lock.pop(event["p"])
            intervals.append((start, event["t"], event["p"], op))
    killed = set()
    for proc, (start, op) in open_lock.items():
        # the process died (SIGKILL) or an injected exception unwound past the unlock while holding: the lock is
        # released by the kernel / by closing the file some time AFTER the fault event, so the recorded interval
        # (which must stay a subset of the real one) ends at the fault event
        fault_times = [e["t"] for e in events if e["p"] == proc and e["op"] == op and e["ev"] == "fault" and e["t"] >= start]
        intervals.append((start, fault_times[-1] if fault_times else start, proc, op))
        killed.add(proc)
    intervals.sort()
    counters["lock_intervals"] = len(intervals)
    for (s1, e1, p1, o1), (s2, e2, p2, o2) in zip(intervals, intervals[1:]):
        counters["interval_pairs_compared"] = counters.get("interval_pairs_compared", 0) + 1
        if p1 != p2 and s2 < e1:
            problem("lock intervals of two processes overlap",
                    f"p{p1} op{o1} [{s1},{e1}] overlaps p{p2} op{o2} [{s2},{e2}]")
    # overlap in time between processes (how concurrent was this history)
    spans = {}
    for event in events:
        span = spans.setdefault(event["p"], [event["t"], event["t"]])
        span[1] = event["t"]
    concurrent = sum(1 for a in spans for b in spans if a < b and spans[a][0] < spans[b][1] and spans[b][0] < spans[a][1])
    counters["concurrent_process_pairs"] = concurrent

    # ---- waiting must be a bounded non-blocking retry: a single attempt never blocks --------------------
    attempts = {}
    for event in events:
        if event["ev"] == "lock_attempt":
            attempts[event["p"]] = event["t"]
        elif event["ev"] == "lock_acquired" and event["p"] in attempts:
            counters["lock_attempts_timed"] = counters.get("lock_attempts_timed", 0) + 1
            if event["t"] - attempts.pop(event["p"]) > 1.0e9:
                problem("a lock attempt blocked instead of retrying within the timeout",
                        f"p{event['p']} op{event['op']} blocked {(event['t'] - 0) and 'for more than 1 s'}")

    # ---- every pool file access inside an own interval -----------------------------------------------
    def inside_own_interval(event):
        return any(start <= event["t"] <= end and proc == event["p"] for start, end, proc, _ in intervals)

    for event in events:
        if event["ev"] in ("copy_start", "copy_end", "unlink_start", "unlink_end", "hash_start", "hash_end") and event.get("pool"):
            counters["pool_accesses_checked"] = counters.get("pool_accesses_checked", 0) + 1
            if not inside_own_interval(event):
                problem("pool file accessed outside of the process's own lock interval",
                        f"p{event['p']} op{event['op']} {event['ev']} at {event['t']}")
        if event["ev"] in ("symlink_start", "symlink_end"):
            counters["pool_accesses_checked"] = counters.get("pool_accesses_checked", 0) + 1
            if not inside_own_interval(event):
                problem("pool file accessed outside of the process's own lock interval", f"p{event['p']} symlink")

    # ---- sequential model replayed in lock order ---------------------------------------------------------
    pool_state = history["pool_initial"] or None
    cache = [spec["cache_initial"] or None for spec in history["procs"]]
    per_op = {}
    for event in events:
        per_op.setdefault((event["p"], event["op"]), []).append(event)
    order = [(start, proc, op) for start, _, proc, op in intervals]
    locked_ops = {(proc, op) for _, proc, op in order}

    def content_equal(a, b):
        if a == TORN or b == TORN:
            return False
        return (a or "") == (b or "")

    def fault_of(proc, op):
        fault = history["procs"][proc].get("fault")
        return fault if fault and fault["op"] == op else None

    expected_outcome, expected_copy = {}, {}
    for _, proc, op in sorted(order):
        name = history["procs"][proc]["ops"][op]
        fault = fault_of(proc, op)
        fired = [e for e in per_op.get((proc, op), []) if e["ev"] == "fault"]
        abort_at = fired[0]["point"] if fired and fired[0]["kind"] in ("raise", "kill") else None
        outcome = "ok"
        my_cache = cache[proc]
        is_link = my_cache in ("LINK", "DEADLINK")

        def transfer(src_value, set_dst):
            """compare-then-copy under the lock with the failpoints of the critical section"""
            nonlocal outcome
            if abort_at == "after_acquire":
                outcome = "aborted"
                return
            dst_is_pool = set_dst == "pool"
            left, right = (my_cache, pool_state)
            equal = content_equal(None if is_link and my_cache == "DEADLINK" else (pool_state if my_cache == "LINK" else left), right)
            if abort_at == "after_compare":
                outcome = "aborted"
                return
            if equal:
                return "skipped"
            expected_copy[(proc, op)] = True
            if src_value is None:
                outcome = "FileNotFoundError"
                return
            if abort_at == "mid_copy":
                outcome = "aborted"
                return TORN
            result = src_value
            if abort_at in ("after_copy", "before_unlock"):
                outcome = "aborted"
            return result

        if name in ("upload_local", "upload_link"):
            if name == "upload_link" and is_link:
                outcome = "ValueError"
            else:
                source = pool_state if my_cache == "LINK" else (None if my_cache == "DEADLINK" else my_cache)
                result = transfer(source, "pool")
                if result not in (None, "skipped"):
                    pool_state = result
                elif result is None and outcome == "ok":
                    pass
                if abort_at == "before_unlock" and outcome == "ok":
                    outcome = "aborted"
        elif name == "download_local":
            result = transfer(pool_state, "cache")
            if result not in (None, "skipped"):
                if my_cache == "LINK":
                    # shutil.copy to a link that points at the pool file itself
                    outcome = outcome if outcome != "ok" else "SameFileError"
                else:
                    cache[proc] = result
            if abort_at == "before_unlock" and outcome == "ok":
                outcome = "aborted"
        elif name == "delete_local":
            if abort_at == "after_acquire":
                outcome = "aborted"
            elif pool_state is None:
                outcome = "FileNotFoundError"
            else:
                pool_state = None
                if abort_at == "before_unlock":
                    outcome = "aborted"
        elif name == "download_link":
            if abort_at == "after_acquire":
                outcome = "aborted"
            else:
                if my_cache == "LINK":
                    equal = True
                elif my_cache == "DEADLINK":
                    equal = False
                else:
                    equal = content_equal(my_cache, pool_state)
                if not is_link and abort_at == "after_compare":
                    outcome = "aborted"
                elif equal:
                    pass
                elif not is_link and my_cache is not None:
                    outcome = "RuntimeError"
                else:
                    cache[proc] = "LINK"
                    if abort_at == "before_unlock":
                        outcome = "aborted"
            if abort_at == "before_unlock" and outcome == "ok":
                outcome = "aborted"
        expected_outcome[(proc, op)] = outcome

    # compare outcomes
    for (proc, op), op_events in per_op.items():
        if op is None:
            continue
        name = history["procs"][proc]["ops"][op]
        ends = [e for e in op_events if e["ev"] == "op_end"]
        fired = [e for e in op_events if e["ev"] == "fault"]
        if not ends:
            if fired and fired[0]["kind"] == "kill":
                counters["kills_observed"] = counters.get("kills_observed", 0) + 1
                continue
            if proc in exits and os.WIFSIGNALED(exits[proc]):
                continue
            problem("operation never finished", f"p{proc} op{op} {name}")
            continue
        real = ends[0]["outcome"]
        if (proc, op) not in locked_ops:
            # never acquired the lock: only legal as a timeout (or a refusal before locking)
            touched = [e["ev"] for e in op_events if e["ev"] in ("copy_start", "unlink_start", "symlink_start")]
            if real == "RuntimeError" and "took more than" in ends[0].get("message", ""):
                counters["timeouts_observed"] = counters.get("timeouts_observed", 0) + 1
                if touched:
                    problem("a waiter that timed out touched files", f"p{proc} op{op} {name}: {touched}")
                waited = ends[0]["t"] - [e for e in op_events if e["ev"] == "op_start"][0]["t"]
                limit = history["procs"][proc].get("timeout", 300)
                if waited < 0.5 * limit * SCALE * 1e9:
                    problem("timeout raised too early", f"p{proc} waited {waited / 1e9:.3f}s with timeout {limit} virtual seconds")
            elif name == "upload_link" and real == "ValueError":
                counters["link_upload_refusals"] = counters.get("link_upload_refusals", 0) + 1
                if history["procs"][proc]["cache_initial"] not in ("LINK", "DEADLINK") and "LINK" not in str(cache[proc]):
                    problem("upload_link refused a real file", f"p{proc} op{op}")
            elif touched or real == "ok":
                problem("operation proceeded without holding the lock", f"p{proc} op{op} {name} outcome {real} touched {touched}")
            continue
        expected = expected_outcome.get((proc, op))
        counters["outcomes_compared"] = counters.get("outcomes_compared", 0) + 1
        normal = {"aborted": "injected"}.get(expected, expected)
        if real != normal and not (expected == "aborted" and real == "injected"):
            problem(f"{name}: outcome differs from the sequential model", f"p{proc} op{op} {name}: real {real} ({ends[0].get('message', '')}) "
                    f"model {expected}")
        if name in ("upload_local", "download_local", "upload_link") and real in ("ok", "injected"):
            counters["copy_decisions_compared"] = counters.get("copy_decisions_compared", 0) + 1
            copied = any(e["ev"] == "copy_start" for e in op_events)
            if copied and not expected_copy.get((proc, op)):
                problem("copy issued although both sides already matched", f"p{proc} op{op} {name} (model: sides equal in lock order)")
        if real == "ok":
            copies = [e for e in op_events if e["ev"] == "copy_start"]
            compares = [e for e in op_events if e["ev"] == "compare"]
            if compares and compares[-1]["equal"] and copies:
                problem("copy issued although both sides already matched", f"p{proc} op{op} {name}")
            if compares and compares[-1]["equal"]:
                counters["skipped_copies_observed"] = counters.get("skipped_copies_observed", 0) + 1
        if real == "RuntimeError" and name == "download_link":
            counters["link_refusals_observed"] = counters.get("link_refusals_observed", 0) + 1
            if any(e["ev"] in ("symlink_start", "unlink_start") for e in op_events):
                problem("link mode replaced real data", f"p{proc} op{op}")

    # sources unchanged by a transfer: no write event targets the source of that transfer
    for (proc, op), op_events in per_op.items():
        if op is None:
            continue
        name = history["procs"][proc]["ops"][op]
        for event in op_events:
            if event["ev"] == "copy_start":
                src_is_pool = os.path.abspath(event["src"]) == os.path.abspath(pool_path)
                if name.startswith("download") and not src_is_pool:
                    problem("download wrote to the pool", f"p{proc} op{op} copy {event['src']} -> {event['dst']}")
                if name.startswith("upload") and src_is_pool:
                    problem("upload wrote to the cache", f"p{proc} op{op} copy {event['src']} -> {event['dst']}")
            if event["ev"] == "unlink_start" and (name.startswith("upload") or name == "download_local") \
                    and not event["path"].endswith(".lock"):
                problem("transfer removed a data file", f"p{proc} op{op} {name} unlink {event['path']}")

    # ---- final contents ----------------------------------------------------------------------------------------
    def describe(state):
        if state is None:
            return None
        if "link" in state:
            return "LINK"
        return token_of.get(state["md5"], TORN)

    any_problem_before = bool(problems)
    real_pool = describe(final["pool"])
    counters["final_files_compared"] = 1 + nprocs
    if not any_problem_before:
        if real_pool != pool_state:
            problem("final pool content differs from the sequential model (lock order)", f"real {real_pool} model {pool_state}")
        for index in range(nprocs):
            real_cache = describe(final["caches"][index])
            model_cache = cache[index]
            if model_cache == "DEADLINK":
                model_cache = "LINK"
            if real_cache != model_cache:
                problem("final cache content differs from the sequential model (lock order)",
                        f"p{index}: real {real_cache} model {model_cache}")
    # torn files only where a fault hit mid-copy
    torn_allowed = any((spec.get("fault") or {}).get("point") == "mid_copy" and spec["fault"]["kind"] in ("raise", "kill")
                       for spec in history["procs"])
    if not torn_allowed:
        for label, state in [("pool", final["pool"])] + [(f"cache{i}", s) for i, s in enumerate(final["caches"])]:
            if state is not None and describe(state) == TORN:
                problem("a file is neither absent nor one complete token stream", f"{label}: {state}")
    faults_fired = [e for e in events if e["ev"] == "fault"]
    counters["faults_fired"] = len(faults_fired)
    for event in faults_fired:
        counters[f"fault_{event['point']}_{event['kind']}"] = counters.get(f"fault_{event['point']}_{event['kind']}", 0) + 1
    # waiters behind a dying/raising holder must have acquired the lock afterwards
    for event in faults_fired:
        if event["kind"] in ("raise", "kill"):
            later = [i for i in intervals if i[0] > event["t"] and i[2] != event["p"]]
            waiting = [(p, o) for (p, o), evs in per_op.items() if o is not None and p != event["p"]
                       and any(e["ev"] == "op_start" and e["t"] < event["t"] for e in evs)
                       and not any(e["ev"] in ("op_end", "lock_acquired") and e["t"] < event["t"] for e in evs)]
            for proc, op in waiting:
                counters["waiters_behind_faulting_holder"] = counters.get("waiters_behind_faulting_holder", 0) + 1
                ends = [e for e in per_op[(proc, op)] if e["ev"] == "op_end"]
                if ends and ends[0]["outcome"] == "RuntimeError" and "took more than" in ends[0].get("message", "") \
                        and history["procs"][proc].get("timeout", 300) >= 100:
                    problem("lock not released after a failure of its holder", f"p{proc} op{op} timed out behind p{event['p']} ({event['point']}/{event['kind']})")
    return {"problems": problems, "counters": counters}


# -----------------------------------------------------------------------------------------------------
# history generation
# -----------------------------------------------------------------------------------------------------

def draw_history(rng, serial):
    nprocs = rng.randint(2, 8)
    size = rng.choice([4096, 65536, 300000, 1 << 20])
    tokens = iter(f"T{serial}.{i}" for i in range(100))
    pool_initial = next(tokens) if rng.random() < 0.7 else ""
    procs = []
    for index in range(nprocs):
        kind = rng.random()
        if kind < 0.55:
            cache_initial = next(tokens)
        elif kind < 0.7:
            cache_initial = pool_initial          # already equal to the pool: the copy must be skipped
        elif kind < 0.8:
            cache_initial = "LINK" if pool_initial else ""
        elif kind < 0.85:
            cache_initial = "DEADLINK"
        else:
            cache_initial = ""
        if cache_initial in ("LINK", "DEADLINK"):
            ops = [rng.choice(["download_link", "upload_link", "download_link"]) for _ in range(rng.randint(1, 2))]
        else:
            ops = [rng.choice(OPS if rng.random() < 0.25 else ["upload_local", "download_local", "download_local", "delete_local", "upload_local"])
                   for _ in range(rng.randint(1, 3))]
        procs.append({"cache_initial": cache_initial, "ops": ops, "delay": rng.choice([0, 0, 0, 1, 3, 10]), "timeout": 300})
    return {"size": size, "pool_initial": pool_initial, "procs": procs, "watchdog": 60}


def fault_histories(rng, serial):
    """The enumerated part: every failpoint x fault kind x operation, with waiters behind the faulting holder."""
    for op in OPS:
        for point in FAILPOINTS:
            for kind in FAULTS:
                serial += 1
                holder_cache = f"T{serial}.h" if op != "download_link" else ""
                holder = {"cache_initial": holder_cache, "ops": [op], "delay": 0, "timeout": 300,
                          "fault": {"point": point, "kind": kind, "op": 0, "secs": rng.choice([20, 40]), "hold": rng.choice([10, 20])}}
                waiters = []
                for w in range(rng.randint(1, 3)):
                    waiters.append({"cache_initial": f"T{serial}.w{w}", "ops": [rng.choice(["upload_local", "download_local", "delete_local"])],
                                    "start_after": 0, "delay": rng.choice([0, 1, 2]), "timeout": 300})
                yield {"size": 65536, "pool_initial": f"T{serial}.pool", "procs": [holder] + waiters, "watchdog": 60,
                       "enumerated": [op, point, kind]}
    # waiters whose timeout is shorter than the holder's sleep
    for op in ("upload_local", "download_local", "delete_local", "download_link"):
        for _ in range(3):
            serial += 1
            holder = {"cache_initial": f"T{serial}.h" if op != "download_link" else "", "ops": ["upload_local"], "delay": 0, "timeout": 300,
                      "fault": {"point": "after_acquire", "kind": "sleep", "op": 0, "secs": 150}}
            waiter = {"cache_initial": f"T{serial}.w" if op != "download_link" else "", "ops": [op], "start_after": 0, "delay": 0,
                      "timeout": rng.choice([3, 5, 10])}
            yield {"size": 4096, "pool_initial": f"T{serial}.pool", "procs": [holder, waiter], "watchdog": 60, "timeout_case": True}


def main():
    args = parse_args()
    verdict = Verdict(PROP, args, level="fault_enumeration", rule=(
        "history = one pool path, 2..8 forked processes each with its own cache file (unique token content, equal-to-pool content, "
        "symlink, dead link or absent) running 1..3 of upload_local/download_local/delete_local/download_link/upload_link with random start "
        "delays; the fault part enumerates 5 operations x 5 failpoints (after acquire, after compare, mid copy, after copy, before unlock) "
        "x 3 fault kinds (sleep, raise, SIGKILL) with 1..3 waiters queued behind the faulting holder, plus waiters with timeouts shorter "
        "than the holder's sleep. non-trivial = >=2 processes overlapping in time; distinct by (operation multiset, failpoint, fault kind, "
        "initial states)"))
    verdict.assumptions = ["monotonic_ns is system wide; recorded lock intervals are subsets of the real hold intervals",
                           "local and link transports only (remote ones have no locking, as the code states)",
                           "pool.py's one-second waits are scaled to 10 ms inside the harness proxies"]
    rng = rng_for(args, PROP)
    quick = args.tier == "quick"

    def cases():
        serial = 0
        for history in fault_histories(rng, 0):
            yield history
        rounds = 300 if quick else 4000
        for serial in range(1000, 1000 + rounds):
            yield draw_history(rng, serial)
        if not quick:
            for repeat in range(4):
                for history in fault_histories(rng, 100000 * (repeat + 1)):
                    yield history

    if args.replay:
        child_init()
        history = load_replay(args.replay)["witness"]["case"]
        results = [(history, run_history(history))]
    else:
        results = par.run_cases("checks.c14:run_history", cases(), jobs=min(args.jobs, 8), timeout=180)
    enumerated_seen = set()
    for history, result in results:
        if "inconclusive" in result:
            verdict.inconclusive_case(result["inconclusive"][:100])
            continue
        for name, value in result["counters"].items():
            verdict.count(name, value)
        verdict.count("events_recorded", result.get("n_events", 0))
        if history.get("enumerated") and result["counters"].get("faults_fired"):
            enumerated_seen.add(tuple(history["enumerated"]))
        signature = [sorted(o for p in history["procs"] for o in p["ops"]), [p.get("fault") for p in history["procs"]],
                     [bool(p["cache_initial"]) for p in history["procs"]], history["size"]]
        verdict.case(signature=signature, nontrivial=result["counters"].get("concurrent_process_pairs", 0) > 0,
                     sample=history if len(verdict.samples) < 3 and history.get("enumerated") is None else None)
        seen = set()
        for mechanism, message in result["problems"]:
            if mechanism not in seen:
                seen.add(mechanism)
                verdict.violation(mechanism, message, {"case": history})
    verdict.extra["fault_space"] = {"operations": OPS, "failpoints": FAILPOINTS, "fault_kinds": FAULTS,
                                    "combinations": len(OPS) * len(FAILPOINTS) * len(FAULTS),
                                    "combinations_in_which_the_fault_fired": len(enumerated_seen)}
    sys.exit(verdict.finish(min_counters=[] if args.replay else [
        "lock_intervals", "interval_pairs_compared", "pool_accesses_checked", "outcomes_compared", "faults_fired",
        "kills_observed", "timeouts_observed", "skipped_copies_observed", "waiters_behind_faulting_holder"]))


if __name__ == "__main__":
    main()
