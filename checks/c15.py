"""
C15 - the update tool reruns exactly the requested path and drops only its dependants.

Monitor: intertest_setup.update runs (tool engine, vlib/toolsim.py) on generated suites whose state names equal
their setup test names (the convention the tool relies on), for every (from_state, to_state) ancestor pair of the
drawn setup tree, vm selections, remove_set values and 1-3 workers; the executions seen at run_test_task and the
unset requests seen at the state control seam are compared with the path / descendant sets computed from the
drawn tree.
"""

import collections
import sys

from vlib.common import Verdict, parse_args, rng_for, load_replay
from vlib import par, suitegen, travgen

PROP = "C15"


def chain_to_install(spec, name):
    by_name = {s["name"]: s for s in spec["setups"]}
    chain = [name]
    while chain[-1] != "install":
        chain.append(by_name[chain[-1]]["parent"])
    return chain


def draw(rng, index):
    spec = suitegen.draw_spec(rng, n_vms=rng.choice([1, 2, 2, 3]), allow_multi_producer=False, state_equals_name=True, allow_removable=rng.random() < 0.5)
    vms = list(spec["vms"])
    selected = sorted(rng.sample(vms, rng.randint(1, min(2, len(vms)))))
    nets, kind = travgen.draw_nets(rng, rng.choice(["lxc", "lxc", "serial", "remote"]), max_workers=3)
    # only workers without restrictions: the path has to be executable everywhere
    nets = " ".join(n for n in nets.split() if n in ("net0", "net1", "net2", "net4", "cluster1.net6", "cluster1.net8", "cluster2.net6", "cluster2.net8")) or "net1"
    if len(vms) >= 2 and rng.random() < 0.35:
        # three workers sharing the paths of two vms (who runs what depends on the interleaving)
        nets = rng.choice(["net1 net2 net4", "net2 net1 net4", "cluster1.net6 cluster1.net8 cluster2.net6"])
        selected = sorted(rng.sample(vms, 2))
    vms_params = {}
    names = [s["name"] for s in spec["setups"]]
    case = {"tool": "update", "suite_spec": spec, "nets": nets, "selected": selected,
            "available_vms": {vm: f"only {d['variants'][0]}\n" for vm, d in spec["vms"].items()},
            "vm_strs": {vm: f"only {spec['vms'][vm]['variants'][0]}\n" for vm in selected},
            "plan": {"dur_mode": rng.choice(["short", "tied", "heavy"]), "dur_seed": index, "by_class": {}}, "ignore_requirements": True, "pairs": {}}
    if all(n.startswith("net") for n in nets.split()) and nets != "net0" and rng.random() < 0.25:
        # isolated state pools: every worker has to bring its own copy of the vm up to date
        case["params"] = {"pool_scope": rng.choice(["own", "own shared"])}
    invalid = rng.random() < 0.18
    remove_set = rng.choice([None, None, "leaves", "normal"] + suitegen.leaf_names(spec)[:1])
    case["remove_set"] = remove_set or "leaves"
    # a vm may have its own remove set (remove_set_<vm>) that differs from the generic one
    case["remove_sets"] = {}
    if len(selected) >= 1 and rng.random() < 0.35:
        for vm in rng.sample(selected, rng.randint(1, len(selected))):
            own = rng.choice(["leaves", "normal"] + suitegen.leaf_names(spec)[:2])
            if own != case["remove_set"]:
                case["remove_sets"][vm] = own
    for vm in selected:
        # the target has to be part of the graph of the remove set for this vm (the tool rejects it otherwise)
        candidates = sorted(needed_setups(case, vm))
        if not candidates:
            # nothing of this vm in the remove set: the tool has nothing to work on (not judged)
            return None
        to_state = rng.choice(candidates)
        chain = chain_to_install(spec, to_state) if to_state in names else [to_state]
        from_state = rng.choice(chain)
        if invalid and vm == selected[0]:
            outside = sorted(set(names) - needed_setups(case, vm))
            roll = rng.random()
            if roll < 0.35 and outside:
                # a setup test of the suite that is not part of the graph of the remove set for this vm
                to_state = rng.choice(outside)
                from_state = rng.choice(["install", to_state])
                case["invalid_kind"] = "target outside the graph of the remove set"
            elif roll < 0.7:
                to_state = "nosuchstate"
            else:
                from_state = "nosuchstate"
            case["expect_error"] = True
        vms_params[f"from_state_{vm}"] = from_state
        vms_params[f"to_state_{vm}"] = to_state
        case["pairs"][vm] = [from_state, to_state]
    if remove_set:
        vms_params["remove_set"] = remove_set
    for vm, own in case["remove_sets"].items():
        vms_params[f"remove_set_{vm}"] = own
    case["vms_params"] = vms_params
    return case


def needed_setups(case, vm):
    """Setup tests in the graph of the remove set when every test is forced onto this vm (what update parses as clean graph)."""
    spec, remove_set = case["suite_spec"], case.get("remove_sets", {}).get(vm, case["remove_set"])
    if remove_set == "all":
        return {s["name"] for s in spec["setups"]}
    variant = spec["vms"][vm]["variants"][0]
    leaves = [leaf for leaf in spec["leaves"] if (remove_set in ("leaves", "normal") or leaf["name"] == remove_set)
              and leaf["only"].get(vm, variant) == variant]
    needed = set()
    for leaf in leaves:
        producer = leaf["needs"].get(vm)
        if producer and producer != "install":
            needed.update(n for n in chain_to_install(spec, producer) if n != "install")
    return needed


def expected_for(case, vm):
    """(path of setup test names to execute, set of state names to be unset) for one vm from the drawn tree."""
    spec = case["suite_spec"]
    from_state, to_state = case["pairs"][vm]
    chain = chain_to_install(spec, to_state)
    path = chain[:chain.index(from_state) + 1]
    needed = needed_setups(case, vm)
    below = set()
    for name in needed:
        ancestors = chain_to_install(spec, name)[1:]
        if to_state in ancestors:
            below.add(name)
    return path, below


def judge(case, record):
    problems, counters = [], collections.Counter()
    if "setup_exception" in record:
        return [("harness", record["setup_exception"]["message"])], counters, True
    step = record["steps"][0]
    outcome = step["outcome"]
    events = record["events"]
    execs = [e for e in events if e["k"] == "exec_start"]
    doors = [e for e in events if e["k"] == "door"]
    if case.get("expect_error"):
        counters["invalid_states_cases"] += 1
        if "exception" not in outcome:
            problems.append(("a from_state/to_state that does not exist in the graph was not rejected",
                             f"{case['pairs']}: rc {outcome.get('rc')}, {len(execs)} executions, {len(doors)} state requests"))
        else:
            counters["invalid_states_rejected"] += 1
        return problems, counters, False
    if "exception" in outcome:
        problems.append((f"update raised {outcome['exception']}", outcome["message"] + outcome.get("trace", "")[-600:]))
        return problems, counters, False
    counters["updates_completed"] += 1
    spec = case["suite_spec"]
    workers = list(record["workers"])
    for vm in spec["vms"]:
        mine = [e for e in execs if (e.get("vms") or "").split() == [vm] or f".vms.{vm}." in e["cls"]]
        if vm not in case["selected"]:
            counters["unselected_vms_checked"] += 1
            if mine:
                problems.append(("tests of an unselected vm were executed", f"{vm}: {[e['cls'] for e in mine][:3]}"))
            touched = [o for d in doors if d["action"] == "unset" for o in d["objs"] if o["obj"].startswith(vm + "-")]
            if touched:
                problems.append(("states of an unselected vm were removed", f"{vm}: {[o['state'] for o in touched]}"))
            continue
        path, below = expected_for(case, vm)
        counters["vm_paths_compared"] += 1
        executed = collections.Counter()
        for e in mine:
            base = e["cls"].split(".vms.")[0]
            if base.startswith("internal.stateless.noop"):
                continue
            executed[base.replace("internal.automated.", "").replace("original.install", "install")] += 1
        expected_counter = collections.Counter(path)
        per_worker = "swarm" not in case.get("params", {}).get("pool_scope", "swarm").split()
        if per_worker:
            # no sharing between the (lxc) workers: each of them executes the path once for its own pool
            counters["vm_paths_compared_per_worker"] += 1
            for worker in workers:
                own = collections.Counter()
                for e in mine:
                    base = e["cls"].split(".vms.")[0]
                    if e["w"] == worker and not base.startswith("internal.stateless.noop"):
                        own[base.replace("internal.automated.", "").replace("original.install", "install")] += 1
                if dict(own) != dict(expected_counter):
                    problems.append(("with isolated pools a worker did not execute exactly the path between the two states",
                                     f"{vm} {case['pairs'][vm]} on {worker}: executed {dict(own)} expected path {path}"))
                    break
        elif set(executed) != set(expected_counter):
            missing, spurious = sorted(set(expected_counter) - set(executed)), sorted(set(executed) - set(expected_counter))
            problems.append(("executed setup tests differ from the path between the two states" +
                             (" (missing)" if missing else "") + (" (spurious)" if spurious else ""),
                             f"{vm} {case['pairs'][vm]}: executed {dict(executed)} expected path {path}"))
        elif any(number != 1 for number in executed.values()):
            problems.append(("a setup test on the path was executed more than once", f"{vm}: {dict(executed)} workers {workers}"))
        for worker in workers:
            requested = {o["state"] for d in doors if d["action"] == "unset" and d["w"] == worker for o in d["objs"] if o["obj"].startswith(vm + "-")}
            counters["worker_unset_sets_compared"] += 1
            if requested != below:
                missing, spurious = sorted(below - requested), sorted(requested - below)
                kind = "on the updated path or before it" if set(spurious) & (set(chain_to_install(spec, case["pairs"][vm][1]))) else "unrelated"
                mechanism = "saved states derived from the target state were not removed" if missing and not spurious else \
                    f"states that do not derive from the target state were removed ({kind})" if spurious else "unset mismatch"
                problems.append((mechanism, f"{vm} {case['pairs'][vm]} remove_set {case.get('remove_sets', {}).get(vm, case['remove_set'])} on {worker}: requested {sorted(requested)} "
                                 f"expected {sorted(below)}"))
    return problems, counters, False


def run_case(case):
    from vlib import toolsim
    record = toolsim.run_tool_case(case)
    problems, counters, harness = judge(case, record)
    seen, unique = set(), []
    for mechanism, message in problems:
        if mechanism not in seen:
            seen.add(mechanism)
            unique.append([mechanism, message[:1200]])
    return {"problems": unique, "counters": dict(counters), "harness": harness,
            "n_exec": len([e for e in record["events"] if e["k"] == "exec_start"]),
            "n_unset": len([e for e in record["events"] if e["k"] == "door" and e["action"] == "unset"])}


def main():
    args = parse_args()
    verdict = Verdict(PROP, args, rule=(
        "case = generated suite (state names equal setup test names) x selection of 1-2 of its 1-3 vms x (from_state, to_state) with "
        "from_state an ancestor-or-self of to_state on the drawn setup tree (plus nonexistent names) x remove_set (default, leaves, normal, all, "
        "one leaf) x 1-3 unrestricted workers x virtual durations; non-trivial = from != to or >= 2 vms; distinct by (selection, pairs, "
        "remove_set, workers)"))
    verdict.assumptions = ["the drawn setup tree is the ground truth for paths and descendants",
                           "requirements of the executed setup tests are not judged here (C01's business)"]
    rng = rng_for(args, PROP)
    if args.replay:
        cases = [load_replay(args.replay)["witness"]["case"]]
    else:
        cases = [c for c in (draw(rng, i) for i in range(160 if args.tier == "quick" else 2400)) if c is not None]
    for case, result in par.run_cases("checks.c15:run_case", iter(cases), jobs=args.jobs, timeout=900,
                                      budget_s=None if args.replay else (900 if args.tier == "quick" else 3 * 3600)):
        if "inconclusive" in result:
            verdict.inconclusive_case(result["inconclusive"][:100])
            continue
        if result["harness"]:
            verdict.inconclusive_case("harness: " + result["problems"][0][1][:80])
            continue
        for name, value in result["counters"].items():
            verdict.count(name, value)
        verdict.count("executions_observed", result["n_exec"])
        verdict.count("unset_requests_observed", result["n_unset"])
        nontrivial = len(case["selected"]) >= 2 or any(a != b for a, b in case["pairs"].values())
        verdict.case(signature=[case["selected"], case["pairs"], case["remove_set"], case["nets"], case["suite_spec"]["setups"]],
                     nontrivial=nontrivial, sample={k: v for k, v in case.items() if k not in ("suite_spec",)} if len(verdict.samples) < 3 else None)
        for mechanism, message in result["problems"]:
            verdict.violation(mechanism, message, {"case": case})
    sys.exit(verdict.finish(min_counters=[] if args.replay else ["updates_completed", "vm_paths_compared", "worker_unset_sets_compared",
                                                                 "invalid_states_rejected", "unset_requests_observed"]))


if __name__ == "__main__":
    main()
