"""
C16 - name lookups (PrefixTree) and visit counters (EdgeRegister) are exact.

Monitor: icontract postconditions on the real PrefixTree.get / __contains__ and on
EdgeRegister.get_counters / get_workers compare every answer with a naive shadow model that the
harness keeps beside each live instance (names inserted; Counter of (form, worker) registrations).
Workload: enumerated small name sets x insertion orders x all queries, random larger sets, random
register/lookup sequences, and real TestNode instances bridged through bridge_with_node.
"""

import collections
import itertools
import sys

import icontract
from virttest.utils_params import Params

from avocado_i2n.cartgraph import node as nodemod
from avocado_i2n.cartgraph.node import PrefixTree, EdgeRegister, TestNode

from vlib.common import Verdict, parse_args, rng_for, load_replay

PROP = "C16"


class PostBroken(Exception):
    pass


class StubNode:
    def __init__(self, name):
        self.params = {"name": name}
        self.bridged_form = name

    def __repr__(self):
        return f"<{self.params['name']}>"


class StubWorker:
    def __init__(self, wid):
        self.id = wid


SHADOW_NAMES = {}      # id(tree) -> {name: node}
SHADOW_COUNTS = {}     # id(register) -> Counter[(form, worker id)]
EVALS = collections.Counter()


def contiguous(query, name):
    q, n = query.split("."), name.split(".")
    return any(n[i:i + len(q)] == q for i in range(len(n) - len(q) + 1))


# -- contracts on PrefixTree ---------------------------------------------------------------------

def get_matches_naive_scan(self, name, result):
    shadow = SHADOW_NAMES.get(id(self))
    if shadow is None:
        return True
    EVALS["get"] += 1
    expected = [node for full, node in shadow.items() if contiguous(name, full)]
    return sorted(map(id, result)) == sorted(map(id, expected))


def contains_agrees_with_scan(self, name, result):
    shadow = SHADOW_NAMES.get(id(self))
    if shadow is None:
        return True
    EVALS["contains"] += 1
    # membership must agree with lookups: true iff the dotted sequence occurs in some name
    return bool(result) == any(contiguous(name, full) for full in shadow)


def counters_match_shadow(self, node, worker, result):
    shadow = SHADOW_COUNTS.get(id(self))
    if shadow is None:
        return True
    EVALS["get_counters"] += 1
    expected = sum(c for (form, wid), c in shadow.items()
                   if (node is None or form == node.bridged_form) and (worker is None or wid == worker.id))
    return result == expected


def workers_match_shadow(self, node, result):
    shadow = SHADOW_COUNTS.get(id(self))
    if shadow is None:
        return True
    EVALS["get_workers"] += 1
    expected = {wid for (form, wid), c in shadow.items() if c > 0 and (node is None or form == node.bridged_form)}
    return set(result) == expected


def install_contracts():
    def err(what):
        return lambda **kwargs: PostBroken(f"{what}: {({k: v for k, v in kwargs.items() if k != 'self'})}")
    PrefixTree.get = icontract.ensure(get_matches_naive_scan, error=lambda self, name, result: PostBroken(
        f"get({name!r}) returned {sorted(n.params['name'] for n in result)} over names {sorted(SHADOW_NAMES[id(self)])}"))(PrefixTree.get)
    PrefixTree.__contains__ = icontract.ensure(contains_agrees_with_scan, error=lambda self, name, result: PostBroken(
        f"({name!r} in tree) == {result} over names {sorted(SHADOW_NAMES[id(self)])}"))(PrefixTree.__contains__)
    orig_counters, orig_workers = EdgeRegister.get_counters, EdgeRegister.get_workers

    def get_counters(self, node=None, worker=None):
        return orig_counters(self, node, worker)

    def get_workers(self, node=None):
        return orig_workers(self, node)
    EdgeRegister.get_counters = icontract.ensure(counters_match_shadow, error=lambda self, node, worker, result: PostBroken(
        f"get_counters({node}, {getattr(worker, 'id', None)}) == {result}, shadow {dict(SHADOW_COUNTS[id(self)])}"))(get_counters)
    EdgeRegister.get_workers = icontract.ensure(workers_match_shadow, error=lambda self, node, result: PostBroken(
        f"get_workers({node}) == {result}, shadow {dict(SHADOW_COUNTS[id(self)])}"))(get_workers)
    orig_register = EdgeRegister.register

    def register(self, node, worker):
        orig_register(self, node, worker)
        if id(self) in SHADOW_COUNTS:
            SHADOW_COUNTS[id(self)][(node.bridged_form, worker.id)] += 1
    EdgeRegister.register = register


# -- cases ------------------------------------------------------------------------------------------

def run_tree_case(names_in_order, queries):
    tree = PrefixTree()
    SHADOW_NAMES[id(tree)] = shadow = {}
    try:
        for name in names_in_order:
            node = StubNode(name)
            tree.insert(node)
            shadow[name] = node
        for query in queries:
            tree.get(query)
            query in tree
    finally:
        del SHADOW_NAMES[id(tree)]


def run_register_case(ops):
    """ops: list of ("reg", form, wid) | ("cnt", form|None, wid|None) | ("wrk", form|None)"""
    register = EdgeRegister()
    SHADOW_COUNTS[id(register)] = collections.Counter()
    nodes, workers = {}, {}
    try:
        for op in ops:
            if op[0] == "reg":
                register.register(nodes.setdefault(op[1], StubNode(op[1])), workers.setdefault(op[2], StubWorker(op[2])))
            elif op[0] == "cnt":
                register.get_counters(nodes.setdefault(op[1], StubNode(op[1])) if op[1] else None,
                                      workers.setdefault(op[2], StubWorker(op[2])) if op[2] else None)
            else:
                register.get_workers(nodes.setdefault(op[1], StubNode(op[1])) if op[1] else None)
    finally:
        del SHADOW_COUNTS[id(register)]


def make_real_node(name, net):
    """A real TestNode with an injected parameter cache (no Cartesian parsing needed)."""
    node = TestNode("1", None)
    node._params_cache = Params({"name": name, "shortname": name, "main_restrictions": "all normal minimal",
                                 "_name_map_file": {"nets.cfg": net}, "nets": net.split(".")[-1]})
    node.objects = [object()]
    return node


def run_bridge_case(rng, n_workers, order, ops, style="parser"):
    """Bridge real nodes of one test for n workers in the given order; registrations via any copy are seen by all."""
    nets = [f"nets.cluster{i % 2}.net{i}" for i in range(n_workers)]
    base = "all.quicktest.tutorial1.vm1.virtio_blk.smp2.virtio_net.CentOS.8.0.x86_64"
    copies = [make_real_node(f"{base}.{net}", net) for net in nets]
    children = [make_real_node(f"all.quicktest.child.vm1.CentOS.{net}", net) for net in nets]
    # the parser bridges every newly parsed node with all already parsed equivalents
    if style == "parser":
        for position, index in enumerate(order):
            for previous in order[:position]:
                copies[index].bridge_with_node(copies[previous])
    else:
        # the update tool bridges the workers' subgraphs afterwards: every ordered pair of equivalent nodes
        for first in order:
            for second in order:
                if first != second:
                    copies[first].bridge_with_node(copies[second])
    regs = {copies[0]._dropped_cleanup_nodes, copies[0]._picked_by_setup_nodes,
            copies[0]._dropped_setup_nodes, copies[0]._picked_by_cleanup_nodes}
    assert len({id(r) for r in regs}) == 4
    for copy in copies:
        for attr in ("_dropped_cleanup_nodes", "_picked_by_setup_nodes", "_dropped_setup_nodes", "_picked_by_cleanup_nodes"):
            if getattr(copy, attr) is not getattr(copies[0], attr):
                raise PostBroken(f"bridged copies do not share {attr} after bridging order {order}")
        if {id(b) for b in copy.bridged_nodes} != {id(c) for c in copies if c is not copy}:
            raise PostBroken(f"bridging not symmetric/complete after order {order}")
    shadow = SHADOW_COUNTS[id(copies[0]._dropped_cleanup_nodes)] = collections.Counter()
    try:
        for via, child, worker in ops:
            copies[via]._dropped_cleanup_nodes.register(children[child], StubWorker(f"net{worker}"))
        for copy in copies:
            for child in children:
                for worker in range(n_workers):
                    copy._dropped_cleanup_nodes.get_counters(child, StubWorker(f"net{worker}"))
                copy._dropped_cleanup_nodes.get_workers(child)
            copy._dropped_cleanup_nodes.get_counters()
        # equivalent children (bridged form of one matches the name of the other) share one registry key
        forms = {child.bridged_form for child in children}
        if len(forms) != 1:
            raise PostBroken(f"worker-invariant forms differ between equivalent tests: {forms}")
    finally:
        del SHADOW_COUNTS[id(copies[0]._dropped_cleanup_nodes)]


def all_names(sets, letters, max_len):
    for s in sets:
        for length in range(0, max_len):
            for seq in itertools.permutations(letters, length):
                yield ".".join((s,) + seq)


def main():
    args = parse_args()
    verdict = Verdict(PROP, args, rule=(
        "tree case = (ordered list of parser-shaped names: a set variant occurring nowhere else first, no variant repeated "
        "within a name; all queries up to length 3 over the alphabet incl. repeated-variant queries); register case = random "
        "sequence of register/get_counters/get_workers; bridge case = real TestNode copies bridged in some order. "
        "non-trivial = >=2 names sharing a variant (tree), >=2 registrations (register); distinct by name set x order / op sequence"))
    verdict.assumptions = ["names are unique within a tree (the parser keys nodes by name)",
                           "names obey the stated quantifier; real multi-vm names with repeated variants are out of scope here"]
    install_contracts()
    rng = rng_for(args, PROP)
    quick = args.tier == "quick"

    def attempt(kind, payload, fn, signature, nontrivial):
        try:
            fn()
        except PostBroken as error:
            verdict.violation(f"{kind}: answer differs from naive model", str(error), {"kind": kind, "case": payload})
        except Exception as error:
            verdict.violation(f"{kind}: exception {type(error).__name__}", f"{type(error).__name__}: {error}",
                              {"kind": kind, "case": payload})
        verdict.case(signature=signature, nontrivial=nontrivial,
                     sample={"kind": kind, "case": payload} if nontrivial and rng.random() < 0.001 else None)

    if args.replay:
        witness = load_replay(args.replay)["witness"]
        kind, payload = witness["kind"], witness["case"]
        if kind == "tree":
            attempt(kind, payload, lambda: run_tree_case(payload["names"], payload["queries"]), payload, True)
        elif kind == "register":
            attempt(kind, payload, lambda: run_register_case([tuple(o) for o in payload]), payload, True)
        else:
            attempt(kind, payload, lambda: run_bridge_case(rng, payload["n"], payload["order"], payload["ops"], payload.get("style", "parser")), payload, True)
        sys.exit(verdict.finish())

    # 1. enumerated small scope
    sets = ["all", "normal"]
    letters = ["a", "b", "c"] if quick else ["a", "b", "c", "d"]
    universe = list(all_names(sets, letters, 3))
    symbols = sets + letters
    queries = [".".join(q) for n in (1, 2, 3) for q in itertools.product(symbols, repeat=n)]
    enumerated = 0
    for size in (1, 2, 3):
        for name_set in itertools.combinations(universe, size):
            shares = size >= 2 and len(set(v for n in name_set for v in n.split("."))) < sum(len(n.split(".")) for n in name_set)
            for order in itertools.permutations(name_set):
                payload = {"names": list(order), "queries": queries}
                attempt("tree", payload, lambda: run_tree_case(order, queries), ["tree", order], shares)
                enumerated += 1
    verdict.count("enumerated_trees", enumerated)
    verdict.extra["enumerated_scope"] = {"set_variants": sets, "letters": letters, "max_name_len": 3, "max_names": 3,
                                         "queries_per_tree": len(queries), "complete": True}
    # 2. random larger sets
    big_letters = list("abcdefgh") + ["vm1", "vm2", "CentOS", "nets", "net1"]
    for _ in range(300 if quick else 6000):
        names = set()
        for _ in range(rng.randint(2, 40)):
            length = rng.randint(0, 6)
            names.add(".".join([rng.choice(sets + ["minimal"])] + rng.sample(big_letters, length)))
        order = list(names)
        rng.shuffle(order)
        qs = []
        for _ in range(60):
            if rng.random() < 0.7 and order:
                parts = rng.choice(order).split(".")
                i = rng.randrange(len(parts))
                qs.append(".".join(parts[i:rng.randint(i + 1, len(parts))]))
            else:
                qs.append(".".join(rng.choice(big_letters + sets) for _ in range(rng.randint(1, 3))))
        payload = {"names": order, "queries": qs}
        attempt("tree", payload, lambda: run_tree_case(order, qs), ["tree", order, qs], True)
        verdict.count("random_trees")
    # 3. register sequences
    forms, wids = ["f1", "f2", "f3"], ["net1", "net2", "net3"]
    for _ in range(2000 if quick else 40000):
        ops = []
        for _ in range(rng.randint(1, 25)):
            kind = rng.random()
            if kind < 0.5:
                ops.append(("reg", rng.choice(forms), rng.choice(wids)))
            elif kind < 0.8:
                ops.append(("cnt", rng.choice(forms + [None]), rng.choice(wids + [None])))
            else:
                ops.append(("wrk", rng.choice(forms + [None])))
        attempt("register", ops, lambda: run_register_case(ops), ["register", ops],
                sum(1 for o in ops if o[0] == "reg") >= 2)
        verdict.count("register_sequences")
    # 4. real nodes bridged in every order (n <= 4), registrations through any copy
    for n in (2, 3, 4):
        for order in itertools.permutations(range(n)):
            for _ in range(3 if quick else 30):
                ops = [(rng.randrange(n), rng.randrange(n), rng.randrange(n)) for _ in range(rng.randint(1, 12))]
                for style in ("parser", "all-pairs"):
                    payload = {"n": n, "order": list(order), "ops": ops, "style": style}
                    attempt("bridge", payload, lambda: run_bridge_case(rng, n, list(order), ops, style), ["bridge", payload], True)
                    verdict.count("bridge_cases")
    for key, value in EVALS.items():
        verdict.count("contract_evals_" + key, value)
    verdict.exhaustive = False
    sys.exit(verdict.finish(min_counters=["contract_evals_get", "contract_evals_contains", "contract_evals_get_counters",
                                          "contract_evals_get_workers", "bridge_cases"]))


if __name__ == "__main__":
    main()
