"""
C17 - a vm state exists exactly when all of the vm's images (and the memory file) have it.

Monitor: the real QCOW2VTBackend.show / QCOW2Backend.show / RamfileBackend._show are driven with
QemuImg / os substituted (same seams as the selftests) by generated `qemu-img snapshot -l` listings
and directory contents; an icontract postcondition compares each returned listing with the set
computed by the harness from the generated assignment (intersection over images and memory files).
"""

import itertools
import sys
import time

import icontract
from virttest.utils_params import Params

from avocado_i2n.states import qcow2, ramfile

from vlib.common import Verdict, parse_args, rng_for, load_replay

PROP = "C17"


class PostBroken(Exception):
    pass


# ---------------------------------------------------------------------------------------------
# qemu-img snapshot -l rendering (qemu's own formats)
# ---------------------------------------------------------------------------------------------

def size_to_str(val: int) -> str:
    """Python port of qemu's util/cutils.c:size_to_str (%0.3g with >= 1000 -> next unit correction)."""
    import math
    suffixes = ["", "Ki", "Mi", "Gi", "Ti", "Pi", "Ei"]
    if val == 0:
        return "0 B"
    _, exponent = math.frexp(val / (1000.0 / 1024.0))
    i = (exponent - 1) // 10
    div = 1 << (i * 10)
    return "%0.3g %sB" % (val / div, suffixes[i])


def render_listing(entries, style, rng):
    """entries: list of (tag, vm_size_bytes or legacy string)."""
    lines = ["Snapshot list:"]
    if style == "new":
        # qemu >= 5.2 (block/qapi.c:bdrv_snapshot_dump): rows always separate id, tag and size by a blank
        fmt = "%-9s %-16s %8s%20s%13s%11s"
        lines.append("%-10s%-17s%8s%20s%13s%11s" % ("ID", "TAG", "VM SIZE", "DATE", "VM CLOCK", "ICOUNT"))
    else:
        # qemu 4.x layout: no separator, so only tags shorter than the 20 character column are unambiguous
        fmt = "%-10s%-20s%7s%20s%15s%.0s"
        lines.append(fmt % ("ID", "TAG", "VM SIZE", "DATE", "VM CLOCK", ""))
        assert all(len(tag) < 20 for tag, _ in entries)
    for number, (tag, size) in enumerate(entries, 1):
        size_str = size if isinstance(size, str) else size_to_str(size)
        date = "%04d-%02d-%02d %02d:%02d:%02d" % (rng.randint(2015, 2030), rng.randint(1, 12), rng.randint(1, 28),
                                                  rng.randint(0, 23), rng.randint(0, 59), rng.randint(0, 59))
        clock = "%02d:%02d:%02d.%03d" % (rng.randint(0, 99), rng.randint(0, 59), rng.randint(0, 59), rng.randint(0, 999))
        ident = str(number if rng.random() < 0.8 else rng.randint(1, 5000))
        lines.append(fmt % (ident, tag, size_str, date, clock, "--" if rng.random() < 0.5 else str(rng.randint(0, 10**9))))
    return "\n".join(lines) + "\n"


TAG_POOL = ["boot", "install", "customize", "on_customize", "connect", "linux_virtuser", "s1", "s10", "s100",
            "snap-1", "snap.2", "a", "a0", "x_y", "guisetup.clicked", "0state", "7", "tag_exactly_16ch", "tag_longer_than_16_chars9",
            "B", "0", "state_0", "GiB", "MiB1"]


def random_size(rng, on: bool):
    if not on:
        return 0
    kind = rng.random()
    if kind < 0.15:
        return rng.choice(["1e+03 KiB", "1e+03 MiB", "1e+03 GiB", "1e+03 B"])
    if kind < 0.3:
        # boundary mantissas: 1000..1023 of a unit print as 0.977..0.999 of the next
        unit = 1 << (10 * rng.randint(0, 3))
        return unit * rng.randint(1000, 1023)
    if kind < 0.45:
        return rng.randint(1, 999)
    return int(2 ** rng.uniform(0, 42)) or 1


# ---------------------------------------------------------------------------------------------
# substitutes
# ---------------------------------------------------------------------------------------------

class FakeQemuImg:
    listings = {}
    calls = 0

    def __init__(self, params, root_dir, tag):
        self.tag = tag

    def snapshot_list(self, force_share=False):
        FakeQemuImg.calls += 1
        return FakeQemuImg.listings[self.tag]


def vm_params(images, readonly=()):
    params = Params()
    # configuration of single images must not change which images count ("every one of the vm's images")
    for image in readonly:
        params[f"image_readonly_{image}"] = "yes"
    params["vms"] = "vm1"
    params["images"] = " ".join(images)
    params["images_base_dir"] = "/images/vm1"
    params["object_id"] = "vm1-abc.def"
    params["swarm_pool"] = "/images"
    for image in images:
        params[f"image_name_{image}"] = image
    return params


# ---------------------------------------------------------------------------------------------
# contracts (named conditions, explicit error=)
# ---------------------------------------------------------------------------------------------

EXPECT = {"value": None, "evals": 0}


def matches_expected_set(result):
    EXPECT["evals"] += 1
    expected = EXPECT["value"]
    as_list = list(result)
    return set(as_list) == expected and len(as_list) == len(set(as_list))


def contracted(function):
    return icontract.ensure(matches_expected_set, error=lambda result: PostBroken(
        f"listed {sorted(result)} but expected {sorted(EXPECT['value'])}"))(function)


def run_case(case, verdict):
    """case: dict(kind, images, per_image=[[(tag,size),...]...], memory=[...], style, rseed)"""
    import random
    rng = random.Random(case["rseed"])
    kind, images = case["kind"], case["images"]
    per_image = [[tuple(e) for e in entries] for entries in case["per_image"]]

    def is_on(size):
        return size != 0 and size != "0 B"

    try:
        if kind in ("qcow2vt", "qcow2"):
            FakeQemuImg.listings = {image: render_listing(entries, case["style"], rng)
                                    for image, entries in zip(images, per_image)}
            qcow2.QemuImg = FakeQemuImg
            params = vm_params(images, case.get("readonly", ()))
            if kind == "qcow2vt":
                on_sets = [set(tag for tag, size in entries if is_on(size)) for entries in per_image]
                EXPECT["value"] = set.intersection(*on_sets)
                # bound at call time: super() inside the classmethod resolves to the real QCOW2Backend.show
                contracted(lambda: qcow2.QCOW2VTBackend.show(params, None))()
                verdict.count("vm_show_compared")
            else:
                # single image on/off discrimination
                image_params = params.object_params(images[0])
                image_params["images"] = images[0]
                EXPECT["value"] = set(tag for tag, size in per_image[0] if not is_on(size))
                contracted(lambda: qcow2.QCOW2Backend.show(image_params, None))()
                verdict.count("off_show_compared")
                EXPECT["value"] = set(tag for tag, size in per_image[0] if is_on(size))

                class OnBackend(qcow2.QCOW2Backend):
                    _require_running_object = True
                contracted(lambda: OnBackend.show(image_params, None))()
                verdict.count("on_show_compared")
        elif kind == "ramfile":
            memory = case["memory"]
            image_sets = [set(tag for tag, _ in entries) for entries in per_image]
            EXPECT["value"] = set.intersection(*image_sets) & set(memory)

            class ImageBackend:
                @staticmethod
                def show(image_params, object=None):
                    index = images.index(image_params["images"])
                    listing = [tag for tag, _ in per_image[index]]
                    return listing if case.get("as_list", True) else set(listing)

            class FakeOs:
                path = __import__("os").path

                @staticmethod
                def listdir(path):
                    assert path == "/images/vm1-abc.def", path
                    extra = case.get("noise", [])
                    return [m + ".state" for m in memory] + extra

                @staticmethod
                def stat(path):
                    class S:
                        st_size = 1234
                    return S

            saved_backend, saved_os = ramfile.RamfileBackend.image_state_backend, ramfile.os
            ramfile.RamfileBackend.image_state_backend = ImageBackend
            ramfile.os = FakeOs
            try:
                params = vm_params(images, case.get("readonly", ()))
                contracted(lambda: ramfile.RamfileBackend._show(params, None))()
                verdict.count("ramfile_show_compared")
            finally:
                ramfile.RamfileBackend.image_state_backend, ramfile.os = saved_backend, saved_os
        return None
    except PostBroken as error:
        return ("wrong-listing", str(error))
    except Exception as error:  # the listing call itself blew up
        return (f"exception-{type(error).__name__}", f"{type(error).__name__}: {error}")


def classify(case, failure):
    """Mechanism key for known-findings (none are expected after the fix)."""
    kind = case["kind"]
    nonempty_first = len(case["per_image"][0]) > 0
    if failure[0].startswith("exception-AttributeError") and len(case["images"]) > 1:
        return f"{kind}: AttributeError combining listings of >=2 images"
    if failure[0] == "wrong-listing" and len(case["images"]) > 1 and not nonempty_first:
        return f"{kind}: empty first image listing treated as uninitialised"
    return f"{kind}: {failure[0]}"


def gen_cases(args, verdict):
    rng = rng_for(args, PROP)
    quick = args.tier == "quick"
    # 1. exhaustive small space: 1..3 images x subsets of 3 tags per image (and memory) x both vm backends
    tags = ["s1", "s10", "a"]
    subsets = [list(c) for n in range(len(tags) + 1) for c in itertools.combinations(tags, n)]
    for n_images in (1, 2, 3):
        for assignment in itertools.product(subsets, repeat=n_images):
            images = [f"image{i + 1}" for i in range(n_images)]
            yield {"kind": "qcow2vt", "images": images, "style": "new", "rseed": 1,
                   "per_image": [[(t, 1 << 30) for t in sub] for sub in assignment], "enumerated": True}
            for memory in (subsets if n_images < 3 else [tags, ["s1"], []]):
                yield {"kind": "ramfile", "images": images, "style": "new", "rseed": 1, "memory": memory,
                       "per_image": [[(t, 0) for t in sub] for sub in assignment], "enumerated": True}
    # 2. random: mixed on/off sizes, orders, styles, tag shapes
    number = 3000 if quick else 60000
    for index in range(number):
        n_images = rng.choice([1, 2, 2, 3, 3])
        images = [f"image{i + 1}" for i in range(n_images)]
        universe = rng.sample(TAG_POOL, rng.randint(1, 8))
        kind = rng.choice(["qcow2vt", "qcow2vt", "ramfile", "qcow2"])
        per_image = []
        for _ in images:
            chosen = [t for t in universe if rng.random() < 0.7]
            rng.shuffle(chosen)
            per_image.append([(t, random_size(rng, rng.random() < (0.75 if kind != "ramfile" else 0.0))) for t in chosen])
        style = rng.choice(["new", "old"])
        if any(len(t) >= 20 for t in universe):
            style = "new"
        case = {"kind": kind, "images": images if kind != "qcow2" else images[:1], "style": style,
                "rseed": rng.randint(0, 10**9), "per_image": per_image if kind != "qcow2" else per_image[:1]}
        if n_images >= 2 and rng.random() < 0.25:
            case["readonly"] = rng.sample(images, rng.randint(1, n_images - 1))
        if kind == "ramfile":
            memory = [t for t in universe if rng.random() < 0.7]
            rng.shuffle(memory)
            case["memory"] = memory
            case["as_list"] = rng.random() < 0.7
            case["noise"] = rng.sample(["lost+found", "image1", "x.qcow2", "y.state.tmp"], rng.randint(0, 2))
            # what transfers leave next to memory files: lock files, also of states whose memory file is gone
            case["noise"] += [t + ".state.lock" for t in universe if rng.random() < 0.4]
        yield case


def main():
    args = parse_args()
    verdict = Verdict(PROP, args, rule=(
        "case = (backend kind, 1..3 images, per-image list of (tag, vm-state size) in listing order, memory files); "
        "all assignments of subsets of 3 tags to <=3 images (x memory subsets) are enumerated, then random listings "
        "in both qemu-img column layouts with qemu's size_to_str formats; non-trivial = >=2 images or (single image with "
        "both on and off snapshots); distinct by the assignment itself"))
    verdict.assumptions = ["listings are those qemu-img prints (size_to_str %0.3g forms and the legacy 1e+03 form)",
                           "QemuImg/os are substituted at the same seams the selftests use"]
    if args.replay:
        cases = [load_replay(args.replay)["witness"]["case"]]
    else:
        cases = gen_cases(args, verdict)
    for case in cases:
        failure = run_case(case, verdict)
        n_images = len(case["images"])
        sizes = {("on" if s not in (0, "0 B") else "off") for entries in case["per_image"] for _, s in entries}
        nontrivial = n_images >= 2 or len(sizes) == 2
        sample = {k: case[k] for k in ("kind", "images", "per_image", "memory") if k in case}
        verdict.case(signature=[case["kind"], case["per_image"], case.get("memory")], nontrivial=nontrivial,
                     sample=sample if (nontrivial and not case.get("enumerated")) else None)
        if n_images >= 2 and any(len(e) == 0 for e in case["per_image"]):
            verdict.count("cases_with_empty_listing_in_some_position")
        if failure is not None:
            verdict.violation(classify(case, failure), failure[1], {"case": case})
    verdict.count("contract_evaluations", EXPECT["evals"])
    verdict.extra["fake_qemu_img_calls"] = FakeQemuImg.calls
    sys.exit(verdict.finish(min_counters=["contract_evaluations", "vm_show_compared", "ramfile_show_compared"]))


if __name__ == "__main__":
    main()
