"""
C18 - the vm network model stays consistent and its address arithmetic is exact.

Monitor: an icontract class invariant on the real VMNetwork (evaluated after construction and after every
public method, in particular integrate_node and reattach_interface) re-derives with `ipaddress` that every
interface is registered in exactly one netconfig under its own address inside that netconfig's subnet and
that no address occurs twice; icontract postconditions (with snapshots) on the real
VMNetconfig.get_allocatable_address / translate_address; direct comparison for the mask_bit property.
Workload: random topologies (1..4 vms x 1..3 nics, prefix 8..30, DHCP ranges) and allocate/reattach sequences.
"""

import collections
import ipaddress
import sys

import icontract

from avocado_i2n.vmnet import VMNetwork
from avocado_i2n.vmnet.netconfig import VMNetconfig

from vlib.common import Verdict, parse_args, rng_for, load_replay, stable_hash
from vlib import netgen

PROP = "C18"
EVALS = collections.Counter()
STATE = {"proxy_mode": False, "exempt_ips": set(), "why": ""}


class InvariantBroken(Exception):
    pass


class PostBroken(Exception):
    pass


def network_consistent(self):
    """Every interface in exactly one netconfig, under its own ip, inside the subnet; no duplicate addresses."""
    if STATE["proxy_mode"] or not hasattr(self, "netconfigs") or not hasattr(self, "interfaces"):
        return True
    EVALS["invariant"] += 1
    seen_ips = collections.Counter()
    for key, interface in self.interfaces.items():
        holders = [nc for nc in self.netconfigs.values()
                   if any(candidate is interface for candidate in nc.interfaces.values())]
        if interface.netconfig is None:
            # an interface of a node under integration that was not yet placed
            if any(interface is i for node in self.nodes.values() for i in node.interfaces.values()):
                STATE["why"] = f"{key} has no netconfig"
                return False
            continue
        if len(holders) != 1:
            STATE["why"] = f"{key} ({interface.ip}) is registered in {len(holders)} netconfigs"
            return False
        netconfig = holders[0]
        if interface.netconfig is not netconfig:
            STATE["why"] = f"{key}.netconfig is not the netconfig that registers it"
            return False
        if netconfig.interfaces.get(interface.ip) is not interface:
            STATE["why"] = f"{key} is not registered under its own ip {interface.ip}"
            return False
        network = ipaddress.ip_network(f"{netconfig.net_ip}/{netconfig.netmask}", strict=False)
        if str(network.network_address) != netconfig.net_ip:
            STATE["why"] = f"netconfig address {netconfig.net_ip} is not the network address of {network}"
            return False
        if ipaddress.ip_address(interface.ip) not in network:
            STATE["why"] = f"{key} ip {interface.ip} outside of {network}"
            return False
        if self.netconfigs.get(netconfig.net_ip) is not netconfig:
            STATE["why"] = f"netconfig {netconfig.net_ip} not indexed under its network address"
            return False
        seen_ips[interface.ip] += 1
    tables = [id(netconfig.range) for netconfig in self.netconfigs.values()]
    if len(set(tables)) != len(tables):
        # every netconfig hands out the addresses of its own range
        STATE["why"] = "two netconfigs share one allocation table"
        return False
    for netconfig in self.netconfigs.values():
        # the two views of the mask of one netconfig agree at all times
        prefix = ipaddress.ip_network(f"0.0.0.0/{netconfig.netmask}").prefixlen
        if str(netconfig.mask_bit) != str(prefix):
            STATE["why"] = f"netconfig {netconfig.net_ip}: netmask {netconfig.netmask} but mask_bit {netconfig.mask_bit}"
            return False
    for ip, number in seen_ips.items():
        if number > 1 and ip not in STATE["exempt_ips"]:
            STATE["why"] = f"address {ip} used by {number} interfaces"
            return False
    return True


def range_snapshot(self):
    return dict(self.range)


def allocation_is_first_free(self, result, OLD):
    EVALS["allocate_post"] += 1
    free = [k for k, taken in OLD.before.items() if taken is False]
    if not free:
        return False
    first = free[0]
    expected = str(ipaddress.IPv4Address(self.net_ip) + first)
    unchanged = all(self.range[k] == v for k, v in OLD.before.items() if k != first)
    return result == expected and self.range[first] is True and unchanged and list(self.range) == list(OLD.before)


def translation_keeps_host_offset(self, ip, nat_ip, result):
    EVALS["translate_post"] += 1
    mask = self.netmask
    own = ipaddress.ip_network(f"{self.net_ip}/{mask}", strict=False)
    target = ipaddress.ip_network(f"{nat_ip}/{mask}", strict=False)
    offset = int(ipaddress.ip_address(ip)) - int(own.network_address)
    return result == str(ipaddress.ip_address(int(target.network_address) + offset))


def install_contracts():
    icontract.invariant(network_consistent, error=lambda self: InvariantBroken(STATE["why"]))(VMNetwork)
    VMNetconfig.get_allocatable_address = icontract.snapshot(range_snapshot, name="before")(
        icontract.ensure(allocation_is_first_free, error=lambda self, result, OLD: PostBroken(
            f"allocated {result} from {self.net_ip} with range before {OLD.before}"))(VMNetconfig.get_allocatable_address))
    VMNetconfig.translate_address = icontract.ensure(translation_keeps_host_offset, error=lambda self, ip, nat_ip, result: PostBroken(
        f"translate_address({ip}, {nat_ip}) on {self.net_ip}/{self.netmask} gave {result}"))(VMNetconfig.translate_address)


def run_case(case, verdict):
    """case: {"topo":..., "ops": [["alloc", subnet] | ["reattach", client, server, cnic_role, snic_role] | ["translate", subnet, off, nat]]}"""
    topo = case["topo"]
    params = netgen.topology_params(topo)
    env = netgen.FakeEnv()
    STATE["proxy_mode"], STATE["exempt_ips"], STATE["reattached"], STATE["renumbered"] = False, set(), False, False
    # statically configured addresses inside a DHCP range are a configuration the allocator is not told about
    static_in_range = set()
    for vm in topo["vms"].values():
        for spec in vm["nics"].values():
            lo, hi = topo["subnets"][spec["subnet"]]["range"]
            if lo <= spec["offset"] <= hi:
                static_in_range.add(spec["ip"])
    STATE["exempt_ips"] = static_in_range
    network = VMNetwork(params, env)
    verdict.count("networks_built")
    handed_out = collections.defaultdict(list)
    for op in case["ops"]:
        if op[0] == "alloc":
            net_ip = str(ipaddress.ip_network(topo["subnets"][op[1]]["net"]).network_address)
            netconfig = network.netconfigs.get(net_ip)
            if netconfig is None:
                continue
            free_before = sum(1 for taken in netconfig.range.values() if taken is False)
            try:
                address = netconfig.get_allocatable_address()
            except IndexError:
                if free_before != 0:
                    raise PostBroken(f"exhaustion reported on {net_ip} with {free_before} free addresses")
                verdict.count("exhaustions_observed")
                continue
            if free_before == 0:
                raise PostBroken(f"address {address} handed out from the exhausted range of {net_ip}")
            if address in handed_out[net_ip]:
                raise PostBroken(f"address {address} handed out twice on {net_ip}")
            handed_out[net_ip].append(address)
            verdict.count("allocations")
        elif op[0] == "drain":
            net_ip = str(ipaddress.ip_network(topo["subnets"][op[1]]["net"]).network_address)
            netconfig = network.netconfigs.get(net_ip)
            if netconfig is None or len(netconfig.range) > 5000:
                continue
            free_before = sum(1 for taken in netconfig.range.values() if taken is False)
            got = 0
            while True:
                try:
                    address = netconfig.get_allocatable_address()
                except IndexError:
                    break
                if address in handed_out[net_ip]:
                    raise PostBroken(f"address {address} handed out twice on {net_ip}")
                handed_out[net_ip].append(address)
                got += 1
                if got > free_before:
                    raise PostBroken(f"more addresses ({got}) than free slots ({free_before}) on {net_ip}")
            if got != free_before:
                raise PostBroken(f"exhaustion after {got} of {free_before} free addresses on {net_ip}")
            verdict.count("ranges_drained")
            verdict.count("exhaustions_observed")
        elif op[0] == "reattach":
            _, client, server, client_role, server_role = op
            if client not in network.nodes or server not in network.nodes or client == server:
                continue
            client_nic = network.nodes[client].params[client_role]
            server_nic = network.nodes[server].params[server_role]
            interface = network.interfaces[f"{client}.{client_nic}"]
            target = network.interfaces[f"{server}.{server_nic}"].netconfig
            if STATE.get("renumbered"):
                # reattaching after a subnet was moved is outside the stated sequences (the nic parameters are only partly updated)
                continue
            if interface.netconfig is target:
                verdict.count("reattach_within_same_netconfig")
            free_before = sum(1 for taken in target.range.values() if taken is False)
            if free_before == 0:
                verdict.count("reattach_to_exhausted_skipped")
                continue
            first_free = [k for k, taken in target.range.items() if taken is False][0]
            candidate = str(ipaddress.IPv4Address(target.net_ip) + first_free)
            if candidate in static_in_range and candidate in target.interfaces:
                # observation F: allocator hands out a statically configured address (precondition on inputs)
                verdict.count("observation_static_address_inside_dhcp_range_would_be_reallocated")
                continue
            network.reattach_interface(env.vms[client], env.vms[server], client_role, server_role)
            # (moving a subnet takes the parameters of its last interface as reference: not combined with reattached ones)
            STATE["reattached"] = True
            if interface.netconfig is not target or target.interfaces.get(interface.ip) is not interface:
                raise InvariantBroken(f"{client}.{client_nic} not attached to the netconfig of {server}.{server_nic}")
            if params.get(f"ip_{client_nic}_{client}") != interface.ip:
                raise PostBroken("network parameters not updated with the reattached address")
            verdict.count("reattachments")
        elif op[0] == "renumber":
            _, subnet, new_net, new_prefix = op
            old_network = ipaddress.ip_network(topo["subnets"][subnet]["net"])
            netconfig = network.netconfigs.get(str(old_network.network_address))
            if netconfig is None or not netconfig.interfaces:
                continue
            # the netconfig may have been renumbered before: offsets are taken from its current address
            current = ipaddress.ip_network(f"{netconfig.net_ip}/{netconfig.netmask}", strict=False)
            offsets = {key: int(ipaddress.ip_address(i.ip)) - int(current.network_address) for key, i in network.interfaces.items()
                       if i.netconfig is netconfig}
            target = ipaddress.ip_network(f"{new_net}/{new_prefix if new_prefix is not None else current.prefixlen}", strict=False)
            if any(offset >= target.num_addresses - 1 for offset in offsets.values()) or \
                    max(netconfig.range) >= target.num_addresses - 1 or STATE.get("reattached") or \
                    any(target.overlaps(ipaddress.ip_network(f"{nc.net_ip}/{nc.netmask}", strict=False))
                        for nc in network.netconfigs.values() if nc is not netconfig):
                continue
            new_mask = str(target.netmask) if new_prefix is not None else None
            network.change_network_address(netconfig, str(target.network_address), new_mask)
            verdict.count("renumberings")
            STATE["renumbered"] = True
            if new_prefix is not None and new_prefix != current.prefixlen:
                verdict.count("renumberings_with_another_mask")
            if netconfig.net_ip != str(target.network_address) or netconfig.netmask != str(target.netmask) or \
                    str(netconfig.mask_bit) != str(target.prefixlen):
                raise PostBroken(f"renumbered netconfig is {netconfig.net_ip}/{netconfig.netmask} (mask_bit {netconfig.mask_bit}), "
                                 f"expected {target}")
            for key, offset in offsets.items():
                expected = str(target.network_address + offset)
                if network.interfaces[key].ip != expected:
                    raise PostBroken(f"{key} moved to {network.interfaces[key].ip}, expected {expected} (host offset {offset} in {target})")
            # a later translation on the renumbered netconfig keeps the host offset under the new mask
            nat = "198.18.0.0"
            if target.prefixlen >= 15 and offsets:
                netconfig.translate_address(str(target.network_address + max(offsets.values())), nat)
        elif op[0] == "translate":
            _, subnet, offset, nat = op
            network_ = ipaddress.ip_network(topo["subnets"][subnet]["net"])
            netconfig = network.netconfigs.get(str(network_.network_address))
            if netconfig is None:
                continue
            ip = str(network_.network_address + (offset % network_.num_addresses))
            netconfig.translate_address(ip, nat)
            verdict.count("translations")
    # final explicit evaluation (the invariant also ran after every public method above)
    if not network_consistent(network):
        raise InvariantBroken(STATE["why"])


def mask_roundtrip(verdict, rng, rounds):
    for _ in range(rounds):
        base = rng.getrandbits(32)
        for prefix in range(33):
            netconfig = VMNetconfig()
            network = ipaddress.ip_network((base >> (32 - prefix) << (32 - prefix) if prefix else 0, prefix))
            netconfig.net_ip = str(network.network_address)
            netconfig.mask_bit = prefix
            verdict.count("mask_roundtrips")
            if netconfig.netmask != str(network.netmask) or netconfig.mask_bit != str(prefix):
                verdict.violation("mask_bit/netmask round trip differs",
                                  f"prefix {prefix} on {network}: netmask {netconfig.netmask}, mask_bit {netconfig.mask_bit}",
                                  {"kind": "mask", "net": str(network)})
            netconfig2 = VMNetconfig()
            netconfig2.netmask = str(network.netmask)
            if netconfig2.mask_bit != str(prefix):
                verdict.violation("mask_bit/netmask round trip differs",
                                  f"netmask {network.netmask} gives mask_bit {netconfig2.mask_bit}, expected {prefix}",
                                  {"kind": "mask", "net": str(network)})


def mask_sequence(verdict, rng, rounds):
    """One netconfig object whose mask is read and set again and again through both of its views."""
    for _ in range(rounds):
        netconfig = VMNetconfig()
        netconfig.net_ip = "10.0.0.0"
        for step in range(rng.randint(2, 8)):
            prefix = rng.randint(1, 32)
            mask = str(ipaddress.ip_network(f"0.0.0.0/{prefix}").netmask)
            if rng.random() < 0.5:
                netconfig.netmask = mask
                how = "netmask"
            else:
                netconfig.mask_bit = prefix
                how = "mask_bit"
            verdict.count("mask_sequence_steps")
            # read in a random order, sometimes twice
            reads = rng.sample(["bit", "mask", "bit", "mask"], rng.randint(2, 4))
            for read in reads:
                got = netconfig.mask_bit if read == "bit" else netconfig.netmask
                want = str(prefix) if read == "bit" else mask
                if str(got) != want:
                    verdict.violation("mask_bit/netmask of one netconfig disagree after a change",
                                      f"step {step}: set {how}={prefix if how == 'mask_bit' else mask}; read {read} -> {got}, expected {want}",
                                      {"kind": "mask-sequence"})
                    return


def draw_case(rng):
    topo = netgen.draw_topology(rng, static_in_range=rng.random() < 0.15)
    vms = list(topo["vms"])
    ops = []
    for _ in range(rng.randint(0, 10)):
        kind = rng.random()
        if kind < 0.12:
            # move a whole subnet to another address, with the same, no or another mask
            subnet = rng.randrange(len(topo["subnets"]))
            prefix = ipaddress.ip_network(topo["subnets"][subnet]["net"]).prefixlen
            new_prefix = rng.choice([None, prefix, max(8, prefix - rng.randint(1, 8)), min(30, prefix + rng.randint(1, 4))])
            width = new_prefix if new_prefix is not None else prefix
            base = (100 << 24) | (64 << 16) | rng.getrandbits(16) if width >= 10 else (rng.choice([11, 12, 13]) << 24)
            # interfaces are moved under the old mask first: the new address is aligned to the larger of the two networks
            align = min(width, prefix)
            new_net = str(ipaddress.ip_address(base >> (32 - align) << (32 - align)))
            ops.append(["renumber", subnet, new_net, new_prefix])
        elif kind < 0.35:
            ops.append(["alloc", rng.randrange(len(topo["subnets"]))])
        elif kind < 0.45:
            ops.append(["drain", rng.randrange(len(topo["subnets"]))])
        elif kind < 0.8 and len(vms) >= 2:
            client, server = rng.sample(vms, 2)
            ops.append(["reattach", client, server, rng.choice(["internet_nic", "lan_nic"]), rng.choice(["internet_nic", "lan_nic"])])
        else:
            nat = str(ipaddress.ip_address(rng.getrandbits(32)))
            ops.append(["translate", rng.randrange(len(topo["subnets"])), rng.getrandbits(24), nat])
    if any(op[0] == "renumber" for op in ops):
        topo["with_gateway"] = True
    return {"topo": topo, "ops": ops}


def main():
    args = parse_args()
    verdict = Verdict(PROP, args, rule=(
        "case = random topology (non-overlapping IPv4 subnets of prefix 8..30 with a DHCP offset range, 1..4 vms x 1..3 nics "
        "with distinct static addresses) + up to 10 operations from allocate / drain range / reattach / translate / renumber a "
        "subnet (same, no or another mask); plus mask round trips on fresh netconfigs and set/read sequences on one reused netconfig; "
        "non-trivial = >=2 vms or a reattachment; distinct by topology hash x operation sequence"))
    verdict.assumptions = ["plain reattachment only (proxy-ARP mode deliberately duplicates an address)",
                           "static addresses configured inside a DHCP range are an input precondition: generated, counted, not judged",
                           "subnets do not overlap and static addresses are distinct"]
    install_contracts()
    rng = rng_for(args, PROP)
    cases = [load_replay(args.replay)["witness"]["case"]] if args.replay else (
        draw_case(rng) for _ in range(4000 if args.tier == "quick" else 80000))
    for case in cases:
        try:
            run_case(case, verdict)
        except (InvariantBroken, PostBroken) as error:
            verdict.violation(f"{type(error).__name__}", str(error), {"case": case})
        except icontract.ViolationError as error:
            verdict.violation("contract violation", str(error), {"case": case})
        except Exception as error:
            verdict.violation(f"exception {type(error).__name__} on a valid topology", f"{type(error).__name__}: {error}", {"case": case})
        nontrivial = len(case["topo"]["vms"]) >= 2 or any(op[0] == "reattach" for op in case["ops"])
        verdict.case(signature=case, nontrivial=nontrivial,
                     sample=case if nontrivial and len(case["ops"]) >= 3 and len(verdict.samples) < 2 else None)
    if not args.replay:
        mask_roundtrip(verdict, rng, 30 if args.tier == "quick" else 600)
        mask_sequence(verdict, rng, 2000 if args.tier == "quick" else 40000)
    for key, value in EVALS.items():
        verdict.count("contract_evals_" + key, value)
    sys.exit(verdict.finish(min_counters=[] if args.replay else [
        "contract_evals_invariant", "contract_evals_allocate_post", "contract_evals_translate_post",
        "reattachments", "exhaustions_observed", "mask_roundtrips", "mask_sequence_steps", "renumberings_with_another_mask"]))


if __name__ == "__main__":
    main()
