"""
C19 - the parameters generated for the two end points of a tunnel mirror each other.

Monitor: real VMTunnel objects are built on real VMNetwork models of random topologies for the full product
local {nic, internetip, custom} x remote {custom, externalip, modeconfig} x peer {ip, dynip} x auth
{none, pubkey, psk}; an oracle written from the documented rules (independently of _get_peer_variant)
compares left_params / right_params key by key and checks connects_nodes in both argument orders for all
node pairs; unsupported types must raise ValueError and leave both nodes' parameters untouched.
"""

import ipaddress
import itertools
import sys

from avocado_i2n.vmnet import VMNetwork
from avocado_i2n.vmnet.tunnel import VMTunnel

from vlib.common import Verdict, parse_args, rng_for, load_replay
from vlib import netgen

PROP = "C19"

LOCALS = ["nic", "internetip", "custom"]
REMOTES = ["custom", "externalip", "modeconfig"]
PEERS = ["ip", "dynip"]
AUTHS = ["absent", "none", "pubkey", "psk_ids", "psk_ip", "psk_mixed"]


def build_args(case, network):
    """Translate the JSON case into VMTunnel constructor arguments."""
    local = {"type": case["local"]}
    if case["local"] == "nic":
        local["nic"] = case["lan_role"]
    elif case["local"] == "custom":
        local.update(case["custom_nets"])
    remote = {"type": case["remote"]}
    if case["remote"] == "custom":
        remote["nic"] = case["lan_role"]
    elif case["remote"] == "modeconfig":
        remote["modeconfig_ip"] = case["modeconfig_ip"]
    peer = {"type": case["peer"], "nic": case["peer_role"]}
    auth = {"absent": None, "none": {"type": "none"}, "pubkey": {"type": "pubkey"},
            "psk_ids": {"type": "psk", "psk": "secret", "left_id": "arnold@left", "right_id": "arnold@right"},
            "psk_ip": {"type": "psk", "psk": "secret", "left_id": "", "right_id": ""},
            "psk_mixed": {"type": "psk", "psk": "s3", "left_id": "", "right_id": "roadwarrior"}}.get(
        case["auth"], {"type": case["auth"]})
    return local, remote, peer, auth


def expected_counterparts(local_type, remote_type):
    """Documented counterpart of the left configuration (docstring of VMTunnel.__init__ / ipsec rules)."""
    right_remote = {"nic": "CUSTOM", "internetip": "EXTERNALIP", "custom": "CUSTOM"}[local_type]
    if remote_type == "custom":
        right_local = "CUSTOM" if local_type == "custom" else "NIC"
    elif remote_type == "externalip":
        right_local = "INTERNETIP"
    else:
        right_local = "NIC"
    return right_local, right_remote


def check_tunnel(case, network, left, right, tunnel, problems):
    lp, rp = tunnel.left_params, tunnel.right_params
    name = tunnel.name

    def need(cond, mech, msg):
        if not cond:
            problems.append((mech, msg))

    need(lp.get("vpn_side") == "left" and rp.get("vpn_side") == "right", "sides", "vpn_side not left/right")
    need(lp.get("vpnconn_lan_type") == case["local"].upper(), "left types", f"left lan type {lp.get('vpnconn_lan_type')}")
    need(lp.get("vpnconn_remote_type") == case["remote"].upper(), "left types", f"left remote type {lp.get('vpnconn_remote_type')}")
    right_local, right_remote = expected_counterparts(case["local"], case["remote"])
    need(rp.get("vpnconn_lan_type") == right_local, "right side is not the documented counterpart of the left",
         f"right lan type {rp.get('vpnconn_lan_type')} expected {right_local} for left remote {case['remote']}")
    need(rp.get("vpnconn_remote_type") == right_remote, "right side is not the documented counterpart of the left",
         f"right remote type {rp.get('vpnconn_remote_type')} expected {right_remote} for left local {case['local']}")

    # each side's local network is the other side's remote network
    for (a, ap, b, bp) in (("left", lp, "right", rp), ("right", rp, "left", lp)):
        a_has_lan = "vpnconn_lan_net" in ap
        b_has_remote = "vpnconn_remote_net" in bp
        if a_has_lan:
            need(b_has_remote, f"{b} side misses remote net although {a} side has a local net (local type {case['local']})",
                 f"{a} lan {ap['vpnconn_lan_net']}/{ap.get('vpnconn_lan_netmask')} but {b} has no vpnconn_remote_net")
            if b_has_remote:
                need(bp["vpnconn_remote_net"] == ap["vpnconn_lan_net"] and
                     bp.get("vpnconn_remote_netmask") == ap.get("vpnconn_lan_netmask"),
                     "local net of one side differs from remote net of the other",
                     f"{a} lan {ap['vpnconn_lan_net']}/{ap.get('vpnconn_lan_netmask')} vs {b} remote "
                     f"{bp['vpnconn_remote_net']}/{bp.get('vpnconn_remote_netmask')}")
        else:
            need(not b_has_remote, "remote net without a local net on the other side",
                 f"{b} remote {bp.get('vpnconn_remote_net')} but {a} has no local net")
    # expected values of the local nets themselves
    if case["local"] == "nic":
        netconfig = left.interfaces[left.params[case["lan_role"]]].netconfig
        need(lp.get("vpnconn_lan_net") == netconfig.net_ip and lp.get("vpnconn_lan_netmask") == netconfig.netmask,
             "left lan net is not the lan nic's network", f"{lp.get('vpnconn_lan_net')} vs {netconfig.net_ip}")
    elif case["local"] == "custom":
        need(lp.get("vpnconn_lan_net") == case["custom_nets"]["lnet"], "left custom lan net", str(lp.get("vpnconn_lan_net")))
    else:
        need("vpnconn_lan_net" not in lp, "point end with a lan net", str(lp.get("vpnconn_lan_net")))
    if case["remote"] == "custom":
        if case["local"] == "custom":
            need(rp.get("vpnconn_lan_net") == case["custom_nets"]["rnet"], "right custom lan net", str(rp.get("vpnconn_lan_net")))
        else:
            netconfig = right.interfaces[right.params[case["lan_role"]]].netconfig
            need(rp.get("vpnconn_lan_net") == netconfig.net_ip, "right lan net is not the lan nic's network",
                 f"{rp.get('vpnconn_lan_net')} vs {netconfig.net_ip}")
    else:
        need("vpnconn_lan_net" not in rp, "point end with a lan net", str(rp.get("vpnconn_lan_net")))
    if case["remote"] == "modeconfig":
        need(lp.get("vpnconn_remote_modeconfig_ip") == case["modeconfig_ip"], "modeconfig ip", str(lp.get("vpnconn_remote_modeconfig_ip")))

    # peer addresses point at each other
    left_peer_iface = left.interfaces[left.params[case["peer_role"]]]
    right_peer_iface = right.interfaces[right.params[case["peer_role"]]]
    need(rp.get("vpnconn_peer_ip") == left_peer_iface.ip, "peer addresses do not point at each other",
         f"right peer ip {rp.get('vpnconn_peer_ip')} vs left address {left_peer_iface.ip}")
    need(lp.get("vpnconn_peer_type") == case["peer"].upper() and rp.get("vpnconn_peer_type") == "IP", "peer types",
         f"{lp.get('vpnconn_peer_type')}/{rp.get('vpnconn_peer_type')}")
    if case["peer"] == "ip":
        need(lp.get("vpnconn_peer_ip") == right_peer_iface.ip, "peer addresses do not point at each other",
             f"left peer ip {lp.get('vpnconn_peer_ip')} vs right address {right_peer_iface.ip}")
        need(lp.get("vpnconn_activation") == "ALWAYS", "activation", str(lp.get("vpnconn_activation")))
    else:
        need("vpnconn_peer_ip" not in lp, "dynamic peer with fixed address", str(lp.get("vpnconn_peer_ip")))
        need(lp.get("vpnconn_activation") == "PASSIVE", "activation", str(lp.get("vpnconn_activation")))
    need(rp.get("vpnconn_activation") == "ALWAYS", "activation", str(rp.get("vpnconn_activation")))
    need(tunnel.left_iface is left_peer_iface and tunnel.right_iface is right_peer_iface, "tunnel interfaces", "iface objects")

    # authentication
    key_type = {"absent": "NONE", "none": "NONE", "pubkey": "PUBLIC"}.get(case["auth"], "PSK")
    need(lp.get("vpnconn_key_type") == key_type and rp.get("vpnconn_key_type") == key_type, "key type",
         f"{lp.get('vpnconn_key_type')}/{rp.get('vpnconn_key_type')} expected {key_type}")
    if key_type == "PSK":
        need(lp.get("vpnconn_psk") == rp.get("vpnconn_psk") and lp.get("vpnconn_psk"), "psk secret differs", "")
        for own, foreign in (("vpnconn_psk_own_id", "vpnconn_psk_foreign_id"), ("vpnconn_psk_own_id_type", "vpnconn_psk_foreign_id_type")):
            need(lp.get(own) == rp.get(foreign) and rp.get(own) == lp.get(foreign) and own in lp and own in rp,
                 "pre-shared-key identities are not swapped", f"{own}: {lp.get(own)!r}/{rp.get(foreign)!r}, {rp.get(own)!r}/{lp.get(foreign)!r}")
        for p in (lp, rp):
            need(p.get("vpnconn_psk_own_id_type") == ("IP" if p.get("vpnconn_psk_own_id") == "" else "CUSTOM"), "id type", "")
    need(lp.get("vpnconn") == name and rp.get("vpnconn") == name, "tunnel name", "")


def check_connects(network, tunnel, problems, verdict):
    nodes = list(network.nodes.values())
    for a, b in itertools.combinations_with_replacement(nodes, 2):
        outcomes = []
        for first, second in ((a, b), (b, a)):
            try:
                outcomes.append(bool(tunnel.connects_nodes(first, second)))
            except Exception as error:
                outcomes.append(f"{type(error).__name__}")
        verdict.count("connects_pairs_compared")
        if outcomes[0] != outcomes[1]:
            problems.append(("connects_nodes depends on argument order",
                             f"connects_nodes({a.name},{b.name})={outcomes[0]} but reversed={outcomes[1]}"))
        if outcomes[0] is True and a is not b:
            verdict.count("connects_true_pairs")
    ends = {tunnel.left, tunnel.right}
    if tunnel.left is not tunnel.right:
        try:
            if not tunnel.connects_nodes(tunnel.left, tunnel.right):
                problems.append(("tunnel does not connect its own end points", ""))
        except Exception as error:
            problems.append(("connects_nodes raises on its own end points", f"{type(error).__name__}: {error}"))


def run_case(case, verdict):
    topo = case["topo"]
    params = netgen.topology_params(topo)
    env = netgen.FakeEnv()
    network = VMNetwork(params, env)
    left, right = network.nodes[case["left"]], network.nodes[case["right"]]
    local, remote, peer, auth = build_args(case, network)
    before = (dict(left.params), dict(right.params))
    problems = []
    invalid = case.get("invalid")
    try:
        tunnel = VMTunnel(case["name"], left, right, local, remote, peer, auth)
    except ValueError as error:
        if invalid:
            verdict.count("rejections_seen")
            if (dict(left.params), dict(right.params)) != before:
                problems.append(("rejected configuration altered node parameters", str(error)))
            return problems
        problems.append((f"supported combination rejected (auth={case['auth']})" if case["auth"] == "none" and "authentication" in str(error)
                         else "supported combination rejected", f"ValueError: {error}"))
        return problems
    except Exception as error:
        if invalid:
            problems.append(("unsupported type not rejected with ValueError", f"{type(error).__name__}: {error}"))
        else:
            problems.append((f"exception {type(error).__name__} building a supported tunnel", f"{type(error).__name__}: {error}"))
        return problems
    if invalid:
        problems.append((f"unsupported {invalid} type accepted", f"{case[invalid]!r} produced {tunnel}"))
        return problems
    verdict.count("tunnels_built")
    check_tunnel(case, network, left, right, tunnel, problems)
    verdict.count("mirrored_tunnels_compared")
    check_connects(network, tunnel, problems, verdict)
    return problems


def draw_topology_for_tunnels(rng):
    while True:
        topo = netgen.draw_topology(rng, n_vms=rng.randint(2, 4), max_prefix=29)
        if len(topo["vms"]) >= 2:
            return topo


def main():
    args = parse_args()
    verdict = Verdict(PROP, args, rule=(
        "case = random topology (2..4 vms x 1..3 nics) x ordered end point pair x the full product of local {nic,internetip,custom} x "
        "remote {custom,externalip,modeconfig} x peer {ip,dynip} x auth {absent,none,pubkey,psk with custom ids, psk with ip ids, mixed}; plus "
        "unsupported local/remote/peer/auth types. Every type combination is non-trivial; distinct by (type tuple, auth, topology)"))
    verdict.assumptions = ["nic roles lan_nic/internet_nic exist on both end points (as in the sample suite)",
                           "custom networks are given as consistent (address, netmask) pairs"]
    rng = rng_for(args, PROP)
    product = list(itertools.product(LOCALS, REMOTES, PEERS, AUTHS))
    if args.replay:
        cases = [load_replay(args.replay)["witness"]["case"]]
    else:
        def generate():
            rounds = 6 if args.tier == "quick" else 120
            for _ in range(rounds):
                topo = draw_topology_for_tunnels(rng)
                vms = list(topo["vms"])
                for local, remote, peer, auth in product:
                    left, right = rng.sample(vms, 2)
                    # custom (forwarded) networks: an existing subnet of the topology with its own mask, or a fresh
                    # one overlapping none of them (an overlapping net with a different mask is a misconfiguration
                    # that can_add_interface rejects with IndexError - outside the property's inputs)
                    existing = [ipaddress.ip_network(sub["net"]) for sub in topo["subnets"]]
                    nets = []
                    while len(nets) < 2:
                        candidate = rng.choice(existing) if rng.random() < 0.5 else netgen.random_subnets(rng, 1, 8, 30)[0]
                        if candidate in existing or not any(candidate.overlaps(other) for other in existing):
                            nets.append(candidate)
                    yield {"topo": topo, "left": left, "right": right, "name": rng.choice(["vpn1", "vpn2", "ipsec9"]),
                           "local": local, "remote": remote, "peer": peer, "auth": auth,
                           "lan_role": rng.choice(["lan_nic", "lan_nic", "internet_nic"]),
                           "peer_role": rng.choice(["internet_nic", "internet_nic", "lan_nic"]),
                           "custom_nets": {"lnet": str(nets[0].network_address), "lmask": str(nets[0].netmask),
                                           "rnet": str(nets[1].network_address), "rmask": str(nets[1].netmask)},
                           "modeconfig_ip": "172.30.0.1"}
                # unsupported types
                for field, values in (("local", ["lan", "NIC", ""]), ("remote", ["nic", "internetip", "x"]),
                                      ("peer", ["dyn", "none"]), ("auth", ["certificate", "PSK"])):
                    for value in values:
                        left, right = rng.sample(vms, 2)
                        case = {"topo": topo, "left": left, "right": right, "name": "vpnx", "local": "nic", "remote": "custom",
                                "peer": "ip", "auth": "absent", "lan_role": "lan_nic", "peer_role": "internet_nic",
                                "custom_nets": {}, "modeconfig_ip": "172.30.0.1", "invalid": field}
                        case[field] = value
                        yield case
        cases = generate()
    combos_ok = set()
    for case in cases:
        problems = run_case(case, verdict)
        combo = (case["local"], case["remote"], case["peer"], case["auth"])
        verdict.case(signature=[combo, case["left"], case["right"], case["topo"], case.get("invalid")], nontrivial=True,
                     sample={k: v for k, v in case.items() if k != "topo"} if len(verdict.samples) < 3 else None)
        if not problems and not case.get("invalid"):
            combos_ok.add(combo)
        seen = set()
        for mechanism, message in problems:
            if mechanism in seen:
                continue
            seen.add(mechanism)
            verdict.violation(mechanism, f"{combo}: {message}", {"case": case})
    verdict.extra["type_combinations_in_product"] = len(product)
    verdict.extra["type_combinations_fully_mirrored"] = len(combos_ok)
    verdict.exhaustive = False
    sys.exit(verdict.finish(min_counters=[] if args.replay else ["mirrored_tunnels_compared", "connects_pairs_compared", "rejections_seen"]))


if __name__ == "__main__":
    main()
