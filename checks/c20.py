"""
C20 - manual steps act once per selected vm and worker, in the given order.

Monitor: Manu.run is driven with generated setup chains on generated suites (tool engine, vlib/toolsim.py: the
selftests' job seam + the traversal simulator's seams on a virtual-time loop); the executions observed at
TestRunner.run_test_task are attributed to the step during which they happened and compared with what the
chain, the vm selection and the workers' restrictions imply.
"""

import collections
import sys

from vlib.common import Verdict, parse_args, rng_for, load_replay, stable_hash
from vlib import par, suitegen, travgen
from vlib.oracles_trav import restriction_admits

PROP = "C20"
STATE_TOOLS = {"check": "check", "get": "get", "set": "set", "unset": "unset", "push": "push", "pop": "pop",
               "create": "set", "clean": "unset", "collect": "get"}
MANAGE_TOOLS = {"boot": "boot", "shutdown": "shutdown", "download": "download", "upload": "upload", "control": "run"}
SILENT_TOOLS = ["noop", "start", "stop"]


def draw(rng, index):
    spec = suitegen.draw_spec(rng, n_vms=rng.choice([1, 2, 2, 3]), allow_multi_producer=False)
    vms = list(spec["vms"])
    selected = sorted(rng.sample(vms, rng.randint(1, len(vms))))
    nets, kind = travgen.draw_nets(rng, rng.choice(["lxc", "lxc", "lxc", "remote", "serial"]), max_workers=4)
    chain = [rng.choice(list(STATE_TOOLS) * 2 + list(MANAGE_TOOLS) + SILENT_TOOLS) for _ in range(rng.randint(1, 5))]
    args = ["setup=" + ",".join(chain), "vms=" + ",".join(selected), "nets=" + nets.replace(" ", ","), "marker_key=marker_value"]
    for do in ("check", "get", "set", "unset", "push", "pop"):
        if rng.random() < 0.8:
            args.append(f"{do}_state={rng.choice(['launch', 'st1', 'install'])}")
    for vm in selected:
        if len(spec["vms"][vm]["variants"]) > 1 and rng.random() < 0.4:
            args.append(f"only_{vm}={rng.choice(spec['vms'][vm]['variants'])}")
    if rng.random() < 0.2:
        # a worker that can run some of the selected vms but not the one that comes last (net5 excludes the last variant of vm2
        # and accepts only the last variant of vm1)
        spec = suitegen.draw_spec(rng, n_vms=2, allow_multi_producer=False)
        spec["vms"]["vm2"]["variants"] = ["B1", "B2"]
        selected = ["vm1", "vm2"]
        nets = " ".join(rng.sample(["net5", rng.choice(["net1", "net2", "net4"])], 2))
        chain = [rng.choice(list(STATE_TOOLS) * 3 + list(MANAGE_TOOLS)) for _ in range(rng.randint(1, 3))]
        args = ["setup=" + ",".join(chain), "vms=vm1,vm2", "nets=" + nets.replace(" ", ","), "marker_key=marker_value",
                f"only_vm1={spec['vms']['vm1']['variants'][-1]}", "only_vm2=B2"]
        for do in ("check", "get", "set", "unset", "push", "pop"):
            args.append(f"{do}_state={rng.choice(['launch', 'st1', 'install'])}")
    case = {"tool": "manu", "suite_spec": spec, "nets": nets, "chain": chain, "args": args, "selected": selected,
            "plan": {"dur_mode": rng.choice(["short", "tied"]), "dur_seed": index, "by_class": {}}, "ignore_requirements": True,
            "watch_params": ["marker_key"]}
    roll = rng.random()
    executing = [i for i, step in enumerate(chain) if step not in SILENT_TOOLS]
    if roll < 0.35 and executing:
        position = rng.choice(executing)
        step = chain[position]
        cls = f"internal.stateful.{STATE_TOOLS[step]}" if step in STATE_TOOLS else \
            {"boot": "internal.stateless.manage.start", "shutdown": "internal.stateless.manage.stop", "control": "internal.stateless.manage.run"}.get(
                step, f"internal.stateless.manage.{step}")
        # the step fails everywhere, or only for the first execution (one vm on one worker) while the others pass
        statuses = [rng.choice(["FAIL", "ERROR"])] + (["PASS"] if rng.random() < 0.5 else [])
        case["plan"]["by_class"] = {f"re:^{cls}(\\.|$)": statuses}
        case["failing_class"] = cls
    elif roll < 0.5:
        case["inject_exception_at"] = rng.randrange(len(chain))
        # a step may fail in any way: its own errors, a job timeout, a failing lookup or an OS error
        case["inject_exception_type"] = rng.choice(["RuntimeError", "TimeoutError", "KeyError", "OSError", "TypeError", "AssertionError", "ValueError"])
    return case


def judge(case, record):
    problems, counters = [], collections.Counter()
    if "setup_exception" in record:
        return [("harness", record["setup_exception"]["message"])], counters, True
    if "exception" in record:
        problems.append(("the chain raised instead of reporting failure", f"{record['exception']['type']}: {record['exception']['message']}"))
        return problems, counters, False
    spec = case["suite_spec"]
    chain = case["chain"]
    steps = record["steps"]
    events = record["events"]
    workers = record["workers"]
    counters["chains_run"] += 1
    if [s["step"] for s in steps] != chain:
        problems.append(("steps not executed in the given order or a later step was skipped",
                         f"chain {chain} executed {[s['step'] for s in steps]}"))
    # vm variants selected on the command line
    selected = case["selected"]
    vm_restr = {}
    for vm in selected:
        lines = [a.split("=", 1) for a in case["args"] if a.startswith(f"only_{vm}=") or a.startswith(f"no_{vm}=")]
        vm_restr[vm] = "".join(f"{k.split('_')[0]} {v}\n" for k, v in lines) if lines else f"only {spec['vms'][vm]['variants'][0]}\n"

    def admits(worker, vm):
        return any(restriction_admits(vm_restr[vm], f"{vm}.{variant}") and restriction_admits(workers[worker]["restrs"].get(vm, ""), f"{vm}.{variant}")
                   for variant in spec["vms"][vm]["variants"])
    any_failure = False
    previous_last = -1
    for index, step in enumerate(steps):
        name = step["step"]
        execs = [e for e in events[step["first_event"]:step["last_event"]] if e["k"] == "exec_start"]
        ends = {e["id"]: e for e in events[step["first_event"]:step["last_event"]] if e["k"] == "exec_end"}
        outside = [e for e in events if e["k"] == "exec_start" and not any(s["first_event"] <= e["seq"] < s["last_event"] for s in steps)]
        if step["first_event"] < previous_last:
            problems.append(("steps overlap in time", f"step {index} {name}"))
        previous_last = step["last_event"]
        if step.get("exception"):
            any_failure = True
            if step.get("injected"):
                counters["steps_with_injected_exception"] += 1
            elif step["exception"] in ("IterationBudget", "Deadlock") or (
                    step["exception"] == "TimeoutError" and len(execs) > 3 * len(workers) * max(1, len(selected))):
                # (the job timeout fired in virtual time after far more executions than once per vm and worker)
                # the step's traversal did not come to an end (it kept executing or waiting)
                problems.append(("step did not finish: its traversal kept executing or waiting until the job timeout / iteration budget",
                                 f"step {index} {name}: {step['exception']}: {step.get('exception_message')}; {len(execs)} executions"))
            else:
                counters["steps_raising_on_their_own"] += 1
                counters[f"steps_raising_on_their_own:{name}:{step['exception']}"] += 1
            continue
        counters["steps_audited"] += 1
        if any(end["status"] in ("FAIL", "ERROR") for end in ends.values()):
            any_failure = True
            counters["steps_with_failing_execution"] += 1
        for e in execs:
            used = (e.get("vms") or "").split()
            if set(used) - set(selected):
                problems.append(("a step was executed for an unselected vm", f"step {name}: vms {used} selected {selected}"))
            if e["extra"].get("marker_key") != "marker_value":
                problems.append(("a user parameter did not reach the step's execution", f"step {name}: {e['extra']}"))
        if name in SILENT_TOOLS:
            if execs:
                problems.append(("a step that runs nothing executed tests", f"{name}: {len(execs)}"))
            continue
        expected_action = STATE_TOOLS.get(name) or MANAGE_TOOLS.get(name)
        if name in STATE_TOOLS:
            for worker in workers:
                for vm in selected:
                    mine = [e for e in execs if e["w"] == worker and (e.get("vms") or "").split() == [vm]]
                    counters["step_vm_worker_cells_checked"] += 1
                    expected = 1 if admits(worker, vm) else 0
                    if len(mine) != expected:
                        problems.append((f"step executed {'more than once' if len(mine) > expected else 'not at all'} for a selected vm on a "
                                         f"{'compatible' if expected else 'incompatible'} worker",
                                         f"step {index} {name}: vm {vm} worker {worker}: {len(mine)} executions, expected {expected}"))
                    for e in mine:
                        if e.get("vm_action") != expected_action:
                            problems.append(("execution does not carry the step's action", f"{name}: vm_action {e.get('vm_action')}"))
            stray = [e for e in execs if len((e.get("vms") or "").split()) != 1]
            if stray:
                problems.append(("state step executed on several vms at once", f"{name}: {[e.get('vms') for e in stray]}"))
        else:
            for worker in workers:
                mine = [e for e in execs if e["w"] == worker]
                counters["step_vm_worker_cells_checked"] += 1
                expected = 1 if all(admits(worker, vm) for vm in selected) else 0
                if len(mine) != expected:
                    problems.append((f"vm management step executed {'more than once' if len(mine) > expected else 'not at all'} on a "
                                     f"{'compatible' if expected else 'incompatible'} worker",
                                     f"step {index} {name}: worker {worker}: {len(mine)} executions, expected {expected}"))
                for e in mine:
                    if sorted((e.get("vms") or "").split()) != selected:
                        problems.append(("vm management step does not cover exactly the selected vms", f"{name}: {e.get('vms')} vs {selected}"))
                    if e.get("vm_action") != expected_action:
                        problems.append(("execution does not carry the step's action", f"{name}: vm_action {e.get('vm_action')}"))
    counters["return_codes_compared"] += 1
    expected_rc = 1 if any_failure else 0
    if record.get("rc") != expected_rc:
        problems.append(("chain return code differs from 'failure iff some step failed'", f"rc {record.get('rc')} expected {expected_rc}"))
    return problems, counters, False


def run_case(case):
    from vlib import toolsim
    record = toolsim.run_tool_case(case)
    problems, counters, harness = judge(case, record)
    seen, unique = set(), []
    for mechanism, message in problems:
        if mechanism not in seen:
            seen.add(mechanism)
            unique.append([mechanism, message[:1000]])
    return {"problems": unique, "counters": dict(counters), "harness": harness,
            "n_exec": len([e for e in record["events"] if e["k"] == "exec_start"]), "rc": record.get("rc")}


def main():
    args = parse_args()
    verdict = Verdict(PROP, args, rule=(
        "case = generated suite (1-3 vms, 1-2 variants) x chain of 1-5 steps over check/get/set/unset/push/pop/create/clean/collect/boot/"
        "shutdown/download/upload/control/noop/start/stop x vm selection x per-vm variant selection x worker set (1-4 lxc incl. restricted "
        "ones, remote, serial) x failure placement (a failing step class, or an exception injected into a step) run through Manu.run; "
        "non-trivial = chain length >= 2 or >= 2 workers or a failing step; distinct by (chain, selection, workers, failure)"))
    verdict.assumptions = ["run, list, unittest and update steps need a real job and are exercised elsewhere (update: C15)",
                           "the execution seam is TestRunner.run_test_task; requirements of tool tests are not judged here"]
    rng = rng_for(args, PROP)
    if args.replay:
        cases = [load_replay(args.replay)["witness"]["case"]]
    else:
        cases = [draw(rng, i) for i in range(70 if args.tier == "quick" else 1500)]
    for case, result in par.run_cases("checks.c20:run_case", iter(cases), jobs=args.jobs, timeout=600,
                                      budget_s=None if args.replay else (900 if args.tier == "quick" else 3 * 3600)):
        if "inconclusive" in result:
            verdict.inconclusive_case(result["inconclusive"][:100])
            continue
        if result["harness"]:
            verdict.inconclusive_case("harness: " + result["problems"][0][1][:80])
            continue
        for name, value in result["counters"].items():
            verdict.count(name, value)
        verdict.count("executions_observed", result["n_exec"])
        nontrivial = len(case["chain"]) >= 2 or len(case["nets"].split()) >= 2 or "failing_class" in case or "inject_exception_at" in case
        verdict.case(signature=[case["chain"], case["selected"], case["nets"], case.get("failing_class"), case.get("inject_exception_at"),
                                sorted(a for a in case["args"] if a.startswith("only_"))],
                     nontrivial=nontrivial, sample={k: v for k, v in case.items() if k not in ("suite_spec",)} if len(verdict.samples) < 3 else None)
        for mechanism, message in result["problems"]:
            verdict.violation(mechanism, message, {"case": case})
    sys.exit(verdict.finish(min_counters=[] if args.replay else ["chains_run", "step_vm_worker_cells_checked", "return_codes_compared",
                                                                 "steps_with_failing_execution", "steps_with_injected_exception"]))


if __name__ == "__main__":
    main()
