"""Shared driver of the parse-engine checks (C06, C07, C09): generated and shipped selections through vlib.graphsnap."""

import collections
import sys

from vlib.common import Verdict, parse_args, rng_for, load_replay, stable_hash
from vlib import par, travgen, suitegen

SHIPPED = [
    "normal..tutorial1", "only normal\nonly tutorial1,tutorial2\n", "only leaves\nonly tutorial1,tutorial3.no_remote\n",
    "leaves..tutorial_gui", "normal..tutorial3.no_remote", "leaves..tutorial_get.explicit_noop", "leaves..tutorial_get.implicit_both",
    "leaves..tutorial_finale", "leaves..tutorial3.remote.object.control.decorator.util", "normal..tutorial2", "nonleaves..connect",
    "nonleaves..on_customize", "all..tutorial_get..explicit_clicked",
    # a test selected through the nested set normal(.gui) that is also the setup of a test selected through another set
    "only leaves..tutorial_get.explicit_noop,normal..tutorial_gui.client_noop\n",
    "only normal..tutorial_gui.client_noop,leaves..tutorial_get.explicit_noop\n",
    "only normal..tutorial_gui,leaves..tutorial_get.implicit_both\n",
    # a dependant of several producers of which one is already in the graph when the dependency is resolved
    "only leaves..tutorial_get.explicit_noop,leaves..tutorial_get.implicit_both\n",
]
SHIPPED_VMS = [
    {"vm1": "only CentOS\n", "vm2": "only Win10\n", "vm3": "only Ubuntu\n"},
    {"vm1": "only Fedora\n", "vm2": "only Win10\n", "vm3": "only Ubuntu\n"},
    {"vm1": "", "vm2": "only Win10\n", "vm3": "only Ubuntu\n"},
    {"vm1": "only CentOS\n", "vm2": "", "vm3": "only Kali\n"},
]


def draw(rng, index, tier, shipped_share):
    if rng.random() < shipped_share:
        nets, kind = travgen.draw_nets(rng, rng.choice(["lxc", "lxc", "remote", "mixed", "serial"]), max_workers=3)
        return {"restriction": rng.choice(SHIPPED), "vm_strs": dict(rng.choice(SHIPPED_VMS)), "nets": nets, "params": {"shared_pool": "/mnt/local/images/shared"},
                "suite": "shipped", "twice": rng.random() < 0.3, "lazy": True}
    case = travgen.draw_case(rng, None, 0.0, index)
    for key in ("plan", "store", "interrupt_at", "population"):
        case.pop(key, None)
    case["params"] = {"shared_pool": "/mnt/local/images/shared"}
    case["twice"] = rng.random() < 0.3
    case["lazy"] = True
    # vm restriction variety: default, none (multi-variant products), single other variant
    for vm, description in case["suite_spec"]["vms"].items():
        roll = rng.random()
        case["vm_strs"][vm] = f"only {description['variants'][0]}\n" if roll < 0.6 else ("" if roll < 0.85 else f"only {description['variants'][-1]}\n")
    if rng.random() < 0.2:
        # deep cloning (a dependant of several producers that has a dependant itself) seen by three or four workers
        case["suite_spec"] = suitegen.draw_spec(rng, multi_producer_share=1.0, grand_share=1.0)
        case["vm_strs"] = {vm: f"only {d['variants'][0]}\n" for vm, d in case["suite_spec"]["vms"].items()}
        case["restriction"] = rng.choice(["leaves", "leaves", "only leaves\nonly tgrand\n", "only leaves\nonly tgrand,tdep\n"])
        kind = rng.choice(["lxc", "lxc", "remote"])
        pool = ["net1", "net2", "net4"] if kind == "lxc" else ["cluster1.net6", "cluster1.net8", "cluster2.net6", "cluster2.net8"]
        case["nets"], case["worker_kind"] = " ".join(rng.sample(pool, 3) if kind == "lxc" else rng.sample(pool, rng.randint(3, 4))), kind
    elif rng.random() < 0.25:
        # a worker with object restrictions named first, followed by workers that support more variants, and an unrestricted vm
        kind = rng.choice(["lxc", "remote"])
        first = rng.choice(["net5", "net3"]) if kind == "lxc" else rng.choice(["cluster2.net9", "cluster1.net7"])
        others = [n for n in (travgen.LXC if kind == "lxc" else travgen.CLUSTER) if n != first]
        case["nets"], case["worker_kind"] = " ".join([first] + rng.sample(others, rng.randint(1, 2))), kind
        case["vm_strs"]["vm1"] = ""
    return case


def main(prop, deciding_counters, quick_cases=90, thorough_cases=2500, assumptions=(), classify=None):
    args = parse_args()
    verdict = Verdict(prop, args, rule=(
        "case = suite (generated mini-suite with a drawn setup DAG incl. multi-object leaves and multi-producer groups, or the shipped "
        "suite) x restriction (sets, single tests, ',' and '..' forms) x per-vm restrictions (default / none -> multi-variant products / "
        "another variant) x nets (1-4 lxc incl. restricted ones, remote clusters, mixed, serial); each case is parsed up front (sometimes "
        "twice) and lazily through a traversal with trivial outcomes; non-trivial = >=1 multi-object node or >=2 workers or a clone; "
        "distinct by canonical graph hash"))
    verdict.assumptions = list(assumptions)
    rng = rng_for(args, prop)
    shipped_share = 0.12 if args.tier == "quick" else 0.15
    if args.replay:
        cases = [load_replay(args.replay)["witness"]["case"]]
    else:
        number = quick_cases if args.tier == "quick" else thorough_cases
        cases = [draw(rng, index, args.tier, shipped_share) for index in range(number)]
        # a fixed core that every run covers: each shipped selection once (default vm variants, two workers; all vm variant
        # sets in the thorough tier), whatever the seed draws
        for vm_strs in (SHIPPED_VMS if args.tier != "quick" else SHIPPED_VMS[:1]):
            for restriction in SHIPPED:
                cases.append({"restriction": restriction, "vm_strs": dict(vm_strs), "nets": "net1 net2", "params": {"shared_pool": "/mnt/local/images/shared"},
                              "suite": "shipped", "twice": False, "lazy": True})
        # a vm restriction spelled like one alternative of a test's own OR-restriction (tutorial_gui: only_vm1 = qemu_kvm_centos,
        # qemu_kvm_fedora): it must narrow the lazily expanded tests exactly as it narrows the up-front graph
        # an exclusion list whose decisive variant is not the first one: lazy expansion must exclude exactly what the
        # Cartesian parser (up-front parsing) excludes
        for vm1 in ("no Ubuntu,Fedora\n", "no Fedora,Ubuntu\n"):
            cases.append({"restriction": "normal..tutorial1", "vm_strs": {"vm1": vm1, "vm2": "only Win10\n", "vm3": "only Ubuntu\n"},
                          "nets": "net1", "params": {"shared_pool": "/mnt/local/images/shared"}, "suite": "shipped", "twice": False, "lazy": True})
        for restriction in ("leaves..tutorial_gui", "leaves..tutorial_get.explicit_noop"):
            cases.append({"restriction": restriction, "vm_strs": {"vm1": "only qemu_kvm_centos\n", "vm2": "only Win10\n", "vm3": "only Ubuntu\n"},
                          "nets": "net1", "params": {"shared_pool": "/mnt/local/images/shared"}, "suite": "shipped", "twice": False, "lazy": True})
    for case in cases:
        case["oracles"] = [prop]
        # a run-wide override of a parameter that the shipped test configurations set themselves
        case.setdefault("params", {})["kill_vm_gracefully"] = "verif"
    budget = args.budget or (None if args.replay else (900 if args.tier == "quick" else 3 * 3600))
    for case, result in par.run_cases("vlib.graphsnap:parse_and_judge", iter(cases), jobs=args.jobs, timeout=600, budget_s=budget):
        if "inconclusive" in result:
            verdict.inconclusive_case(result["inconclusive"][:100])
            continue
        if result.get("empty"):
            verdict.count("empty_selections_skipped")
            continue
        if "setup_exception" in result:
            exc = result["setup_exception"]
            verdict.violation(f"parsing a valid selection raised {exc['type']}", exc["message"] + "\n" + exc.get("trace", "")[-1200:], {"case": case})
            verdict.case(signature=["exception", exc["type"], case["restriction"]], nontrivial=True)
            continue
        stats = result["stats"]
        for name, value in result["counters"].get(prop, {}).items():
            verdict.count(name, value)
        verdict.count("graphs_parsed")
        verdict.count("nodes_parsed", stats["nodes"])
        if stats.get("lazy_error"):
            verdict.count("lazy_traversals_failed_not_compared")
        nontrivial = stats["multi_object"] > 0 or stats["workers"] >= 2 or stats["clones"] > 0
        sample = None
        if nontrivial and len(verdict.samples) < 3:
            sample = {k: v for k, v in case.items() if k not in ("suite_spec", "oracles")}
            sample["stats"] = stats
        verdict.case(signature=stats["graph_hash"], nontrivial=nontrivial, sample=sample)
        for mechanism, message in result["findings"].get(prop, []):
            key = classify(mechanism, case, result) if classify else mechanism
            verdict.violation(key, message, {"case": case})
    sys.exit(verdict.finish(min_counters=[] if args.replay else deciding_counters))
