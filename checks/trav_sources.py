"""Workload emphasis, non-triviality rules, deciding counters and known-finding classifiers per traversal property."""

from vlib import travgen, suitegen


def shipped_share(tier):
    return 0.04 if tier == "quick" else 0.08


def c01(rng, index, tier):
    case = travgen.draw_case(rng, "C01", shipped_share(tier), index)
    if case.get("suite_spec") and case.get("worker_kind") != "mixed" and rng.random() < 0.2:
        # a second job replaying the first one after pools were (partly) cleaned: previous results say the setup passed
        # while its states may be gone
        case.pop("interrupt_at", None)
        if case["population"] == "residue":
            case["population"] = "empty"
        case["plan"] = travgen.draw_plan(rng, case["suite_spec"], failing=rng.choice(["one-flaky", "one-persistent", "random"]), seed=index)
        case["replay_run"] = draw_replay_run(rng, case)
        states = [s["state"] for s in case["suite_spec"]["setups"]]
        case["replay_run"]["wipe"] = rng.choice(["own", "own", rng.sample(states, rng.randint(1, len(states))), None])
    return case


def c02(rng, index, tier):
    case = travgen.draw_case(rng, "C02", shipped_share(tier), index)
    roll = rng.random()
    if roll < 0.1:
        case["params"]["dry_run"] = "yes"
    elif roll < 0.25 and case.get("suite_spec"):
        # result never reported for one class
        names = suitegen.leaf_names(case["suite_spec"]) + [f"internal.automated.{s['name']}" for s in case["suite_spec"]["setups"]]
        case["plan"]["withhold_re"] = rng.choice(names)
    elif roll < 0.5 and case.get("suite_spec"):
        # the enumerated family: exactly one class (or the creation step) fails persistently
        classes = ["original.install", "internal.stateless.noop"] + [f"internal.automated.{s['name']}" for s in case["suite_spec"]["setups"]] \
            + suitegen.leaf_names(case["suite_spec"])
        cls = classes[index % len(classes)]
        case["plan"]["by_class"] = {f"re:^{cls}(\\.|$)": [rng.choice(["FAIL", "ERROR"])]}
        if rng.random() < 0.5:
            case["params"]["max_tries"] = str(rng.choice([2, 3]))
    return case


def c03(rng, index, tier):
    case = travgen.draw_case(rng, "C03", shipped_share(tier), index)
    case["plan"]["dur_mode"] = rng.choice(["tied", "tied", "short"])
    if case.get("suite_spec") and rng.random() < 0.3:
        # several remote workers of one cluster sharing setup per swarm, with retries
        nets = " ".join(sorted(rng.sample(["cluster1.net6", "cluster1.net7", "cluster1.net8"], rng.randint(2, 3)) +
                               rng.sample(["cluster2.net6", "cluster2.net8"], rng.randint(0, 2))))
        case["nets"], case["worker_kind"] = nets, "remote"
        case["params"] = {"shared_pool": "/mnt/local/images/shared", "pool_scope": rng.choice(["own swarm shared", "own swarm shared", None]) or "own swarm cluster shared",
                          "max_tries": str(rng.choice([2, 2, 3]))}
        case["store"], case["population"] = {"states": {}, "roots": {}}, "empty"
        case.pop("interrupt_at", None)
    return case


def c04(rng, index, tier):
    case = travgen.draw_case(rng, "C04", shipped_share(tier), index)
    case["plan"]["dur_mode"] = rng.choice(["tied", "heavy", "short"])
    case["plan"]["by_class"] = {} if rng.random() < 0.7 else case["plan"]["by_class"]
    if case.get("suite_spec") and rng.random() < 0.35:
        # retries with a concurrency limit below the number of tries and tries that last most of their timeout:
        # consecutive tries add up to more than one timeout while each stays within it
        spec = suitegen.draw_fan_spec(rng)
        for setup in spec["setups"]:
            setup["removable"] = False
        case["suite_spec"] = spec
        case["vm_strs"] = {"vm1": "only A1\n"}
        case["restriction"] = "leaves"
        nets, kind = travgen.draw_nets(rng, rng.choice(["lxc", "lxc", "remote"]), max_workers=3)
        case["nets"], case["worker_kind"] = nets, kind
        case["params"] = {"shared_pool": "/mnt/local/images/shared", "max_tries": str(rng.choice([2, 3, 3, 4])), "max_concurrent_tries": "1"}
        if kind == "lxc" and rng.random() < 0.3:
            case["params"]["pool_scope"] = "own swarm shared"
        if rng.random() < 0.4:
            case["params"]["rerun_status"] = "pass fail error"
        case["plan"] = {"default_status": "PASS", "dur_seed": index, "dur_mode": "long", "by_class": {}, "withhold": []}
        case["store"], case["population"], case["eager"] = {"states": {}, "roots": {}}, "empty", rng.random() < 0.3
        case.pop("interrupt_at", None)
        return case
    if case.get("suite_spec") and rng.random() < 0.5:
        # several workers converging on few tests
        leaves = suitegen.leaf_names(case["suite_spec"])
        case["restriction"] = "only leaves\nonly " + leaves[0] + "\n"
        nets, kind = travgen.draw_nets(rng, rng.choice(["lxc", "lxc", "remote"]), max_workers=5)
        case["nets"], case["worker_kind"] = nets, kind
        case["params"] = travgen.draw_params(rng, "C04", kind)
        if kind == "lxc" and len(nets.split()) >= 2 and rng.random() < 0.4:
            # setup shared by the swarm but not beyond it
            case["params"]["pool_scope"] = rng.choice(["own swarm shared", "own swarm"])
        case["store"] = {"states": {}, "roots": {}}
        case["population"] = "empty"
        case.pop("interrupt_at", None)
    return case


def c05(rng, index, tier):
    case = travgen.draw_case(rng, "C05", 0.0 if rng.random() < 0.9 else 1.0, index)
    if case.get("suite_spec") and rng.random() < 0.5:
        # a removable state with several dependants spread over the workers
        case["suite_spec"] = suitegen.draw_fan_spec(rng)
        case["vm_strs"] = {"vm1": "only A1\n"}
        case["restriction"] = "leaves"
        kind = rng.choice(["lxc", "lxc", "remote", "remote"])
        if kind == "remote":
            nets = " ".join(sorted(rng.sample(["cluster1.net6", "cluster1.net7", "cluster1.net8"], rng.randint(2, 3)) +
                                   rng.sample(["cluster2.net6", "cluster2.net8"], rng.randint(0, 1))))
            scope = rng.choice([None, "own swarm shared", "own swarm shared"])
        else:
            nets, _ = travgen.draw_nets(rng, "lxc", max_workers=4)
            scope = rng.choice([None, None, "own swarm shared"])
        case["nets"], case["worker_kind"] = nets, kind
        case["params"] = {"shared_pool": "/mnt/local/images/shared"}
        if scope:
            case["params"]["pool_scope"] = scope
        if rng.random() < 0.3:
            case["params"]["max_tries"] = "2"
        case["plan"] = {"default_status": "PASS", "dur_seed": index, "dur_mode": rng.choice(["short", "tied", "heavy"]), "by_class": {}, "withhold": []}
        case["store"], case["population"] = {"states": {}, "roots": {}}, "empty"
        case["eager"] = rng.random() < 0.3
        case.pop("interrupt_at", None)
        if rng.random() < 0.4:
            late = rng.sample(nets.split(), rng.randint(1, max(1, len(nets.split()) - 1)))
            case["start_delays"] = {worker: rng.choice([1.0, 5.0, 20.0, 60.0, 150.0]) for worker in late}
        return case
    if case.get("suite_spec") and rng.random() < 0.35:
        # a requested test that is also the (removable) setup of another requested test, tried by several workers at once
        spec = suitegen.draw_spec(rng, multi_producer_share=1.0)
        spec["groups"][0]["variants"][0]["removable"] = True
        spec["groups"][0]["variants"][1]["removable"] = rng.random() < 0.5
        if rng.random() < 0.5:
            # one producer only: the dependant is not cloned
            spec["groups"][0]["variants"] = spec["groups"][0]["variants"][:1]
        case["suite_spec"] = spec
        case["vm_strs"] = {vm: f"only {d['variants'][0]}\n" for vm, d in spec["vms"].items()}
        case["restriction"] = rng.choice(["leaves", "only leaves\nonly mp1,tdep\n"])
        nets, kind = travgen.draw_nets(rng, "lxc", max_workers=3)
        if len(nets.split()) < 2 or rng.random() < 0.5:
            nets = " ".join(rng.sample(["net1", "net2", "net4"], 2))
        case["nets"], case["worker_kind"] = nets, kind
        case["params"] = {"shared_pool": "/mnt/local/images/shared", "max_tries": rng.choice(["2", "2", "3"]), "stop_status": "pass"}
        if rng.random() < 0.3:
            case["params"]["pool_scope"] = "own swarm shared"
        case["plan"] = {"default_status": "PASS", "dur_seed": index, "dur_mode": rng.choice(["short", "heavy", "heavy"]), "by_class": {}, "withhold": []}
        case["store"], case["population"], case["eager"] = {"states": {}, "roots": {}}, "empty", False
        case.pop("interrupt_at", None)
        return case
    if case.get("suite_spec"):
        spec = case["suite_spec"]
        for setup in spec["setups"]:
            if rng.random() < 0.5:
                setup["removable"] = True
        case["eager"] = rng.random() < 0.15
    else:
        case["restriction"] = rng.choice(["leaves..tutorial_gui", "leaves..tutorial_get.explicit_noop", "leaves..tutorial_gui,tutorial_get.explicit_noop"])
    if rng.random() < 0.4:
        # several workers of one remote swarm that share setup within the swarm only, some of them joining late
        nets = " ".join(sorted(rng.sample(["cluster1.net6", "cluster1.net7", "cluster1.net8"], rng.randint(2, 3)) +
                               rng.sample(["cluster2.net6", "cluster2.net8"], rng.randint(0, 2))))
        case["nets"], case["worker_kind"] = nets, "remote"
        case["params"] = {"shared_pool": "/mnt/local/images/shared", "pool_scope": "own swarm shared"}
        if rng.random() < 0.4:
            case["params"]["max_tries"] = "2"
        case["store"], case["population"] = {"states": {}, "roots": {}}, "empty"
        case.pop("interrupt_at", None)
        if rng.random() < 0.5:
            late = rng.sample(nets.split(), rng.randint(1, len(nets.split()) - 1))
            case["start_delays"] = {worker: rng.choice([1.0, 5.0, 20.0, 60.0, 150.0]) for worker in late}
    return case


def draw_replay_run(rng, case, keep_retry=False):
    """A second job replaying the first one: same / smaller / larger / disjoint worker set of the same kind, pools kept or wiped."""
    kind = case.get("worker_kind", "lxc")
    current = case["nets"].split()
    pool = {"lxc": travgen.LXC, "remote": travgen.CLUSTER, "serial": ["net0"], "mixed": travgen.LXC[:2] + travgen.CLUSTER[:3]}[kind]
    roll = rng.random()
    if roll < 0.3 or kind == "serial":
        nets = current
    elif roll < 0.55 and len(current) > 1:
        nets = rng.sample(current, rng.randint(1, len(current) - 1))
    elif roll < 0.8:
        others = [n for n in pool if n not in current]
        nets = rng.sample(others, rng.randint(1, min(3, len(others)))) if others else current
    else:
        nets = sorted(set(rng.sample(current, rng.randint(1, len(current))) + rng.sample(pool, rng.randint(1, 2))))
    replay = {"nets": " ".join(sorted(nets)), "params": {}, "drop_params": [],
              "wipe": rng.choice([None, None, None, "own"])}
    if not keep_retry:
        # the replay defaults (two tries; fail, error, warn rerun) unless set explicitly
        replay["drop_params"] = ["max_tries", "max_concurrent_tries", "rerun_status", "stop_status"]
        if rng.random() < 0.3:
            replay["params"]["max_tries"] = str(rng.choice([1, 2, 3]))
        if rng.random() < 0.3:
            replay["params"]["rerun_status"] = ",".join(rng.sample(["fail", "error", "warn", "pass", "skip", "interrupted"], rng.randint(1, 3)))
    return replay


def c08(rng, index, tier):
    case = travgen.draw_case(rng, "C08", shipped_share(tier), index)
    if rng.random() < 0.6:
        nets, kind = travgen.draw_nets(rng, rng.choice(["lxc", "mixed", "remote"]), max_workers=4)
        case["nets"], case["worker_kind"] = nets, kind
        case["params"] = travgen.draw_params(rng, "C08", kind)
        if case.get("suite_spec"):
            case["store"] = travgen.draw_population(rng, case["suite_spec"], case["vm_strs"], nets,
                                                    case["population"] if case["population"] != "residue" else "empty")
    if rng.random() < 0.3 and case["worker_kind"] != "mixed":
        # a replayed previous job whose producers may not be part of the current worker set
        case.pop("interrupt_at", None)
        if case["population"] == "residue":
            case["population"] = "empty"
        case["plan"] = travgen.draw_plan(rng, case.get("suite_spec"), failing=rng.choice(["one-flaky", "random", "one-persistent"]), seed=index)
        case["replay_run"] = draw_replay_run(rng, case)
    return case


def c10(rng, index, tier):
    if rng.random() < 0.2:
        # few tests shared by two or three workers that try them at the same time, with outcome sequences that hit the stop set or
        # leave the rerun set on some try but not on the latest one
        spec = suitegen.draw_fan_spec(rng)
        for setup in spec["setups"]:
            setup["removable"] = False
        spec["leaves"] = spec["leaves"][:rng.randint(1, 3)]
        nets = " ".join(rng.sample(["net1", "net2", "net4"], rng.randint(2, 3)))
        statuses = ["FAIL", "PASS", "ERROR", "WARN"]
        params = {"shared_pool": "/mnt/local/images/shared", "max_tries": str(rng.choice([3, 3, 4]))}
        if rng.random() < 0.6:
            params["stop_status"] = " ".join(s.lower() for s in rng.sample(statuses, rng.randint(1, 2)))
        else:
            params["rerun_status"] = " ".join(s.lower() for s in rng.sample(statuses, rng.randint(1, 3)))
        plan = {"default_status": "PASS", "dur_seed": index, "dur_mode": rng.choice(["tied", "short", "heavy"]), "by_class": {}, "withhold": []}
        for cls in [f"internal.automated.{spec['setups'][0]['name']}"] + [leaf["name"] for leaf in spec["leaves"]]:
            if rng.random() < 0.8:
                plan["by_class"][f"re:^{cls}(\\.|$)"] = [rng.choice(statuses) for _ in range(rng.randint(2, 4))]
        return {"suite_spec": spec, "restriction": "leaves", "vm_strs": {"vm1": "only A1\n"}, "nets": nets, "eager": rng.random() < 0.3,
                "params": params, "plan": plan, "population": "empty", "store": {"states": {}, "roots": {}}, "suite": "generated",
                "worker_kind": "lxc"}
    case = travgen.draw_case(rng, "C10", shipped_share(tier), index)
    case["population"] = "empty"
    case["store"] = {"states": {}, "roots": {}}
    case.pop("interrupt_at", None)
    roll = rng.random()
    params = case["params"]
    for key in ("max_tries", "max_concurrent_tries", "rerun_status", "stop_status"):
        params.pop(key, None)
    if roll < 0.12:
        # invalid settings must be rejected with an error
        kind = rng.choice(["negative", "bad-status", "bad-stop", "text"])
        if kind == "negative":
            params["max_tries"] = str(rng.choice([-1, -3]))
            case["expect_error"] = ["ValueError"]
        elif kind == "bad-status":
            params["max_tries"] = "2"
            params["rerun_status"] = rng.choice(["failed", "fail passed", "ok"])
            case["expect_error"] = ["ValueError"]
        elif kind == "bad-stop":
            params["max_tries"] = "3"
            params["stop_status"] = rng.choice(["stopped", "error done"])
            case["expect_error"] = ["ValueError"]
        else:
            params["max_tries"] = rng.choice(["two", "1.5x"])
            case["expect_error"] = ["ValueError", "TypeError"]
    else:
        params["max_tries"] = str(rng.choice([1, 2, 2, 3, 3, 4]))
        if rng.random() < 0.35:
            params["max_concurrent_tries"] = str(min(int(params["max_tries"]), rng.choice([1, 1, 2])))
        if rng.random() < 0.6:
            params["rerun_status"] = " ".join(rng.sample(["fail", "error", "warn", "pass", "skip", "cancel", "interrupted"], rng.randint(1, 4)))
        if rng.random() < 0.4:
            params["stop_status"] = " ".join(rng.sample(["fail", "error", "pass", "warn", "skip"], rng.randint(1, 2)))
        case["plan"] = travgen.draw_plan(rng, case.get("suite_spec"), failing=rng.choice(["random", "random", "one-flaky", "one-persistent"]), seed=index)
        if rng.random() < 0.1 and case.get("suite_spec"):
            # a result that is never reported
            case["plan"]["withhold_re"] = rng.choice(suitegen.leaf_names(case["suite_spec"]))
            case["plan"]["by_class"] = {}
            params["max_tries"] = "1"
            params.pop("max_concurrent_tries", None)
        elif rng.random() < 0.3 and case["worker_kind"] != "mixed":
            case["replay_run"] = draw_replay_run(rng, case)
    return case


SOURCES = {"C01": c01, "C02": c02, "C03": c03, "C04": c04, "C05": c05, "C08": c08, "C10": c10}

NONTRIVIAL = {
    "C01": lambda case, result, c: c.get("required_states_checked", 0) > 0 and (result["stats"]["workers"] >= 2 or case.get("population") != "empty"),
    "C02": lambda case, result, c: result["stats"]["workers"] >= 2 or bool(case.get("plan", {}).get("by_class")) or bool(case["plan"].get("withhold_re")),
    "C03": lambda case, result, c: c.get("groups_with_several_workers", 0) > 0 or c.get("first_examinations", 0) > 1,
    "C04": lambda case, result, c: c.get("bounces_observed", 0) > 0,
    "C05": lambda case, result, c: c.get("graphs_with_removable_states", 0) > 0 and (c.get("removals_audited", 0) + c.get("unset_requests_audited", 0)) > 0,
    "C08": lambda case, result, c: c.get("edges_with_foreign_producer", 0) > 0,
    "C10": lambda case, result, c: c.get("decisions_with_history", 0) > 0 or bool(case.get("expect_error")) or c.get("replayed_classes_audited", 0) > 0,
}

COUNTERS = {
    "C01": ["required_states_checked", "excused_by_failed_producer", "cases_starting_from_residue_of_interrupted_run"],
    "C02": ["traversals_completed", "selected_tests_audited"],
    "C03": ["class_scope_groups_counted", "groups_with_several_workers", "first_examinations_with_all_states_present"],
    "C04": ["interval_groups_swept", "interval_groups_with_several_workers", "bounces_observed"],
    "C05": ["unset_requests_audited", "removals_audited", "removals_after_all_dependants"],
    "C08": ["executions_audited", "producer_edges_audited", "edges_with_foreign_producer"],
    "C10": ["decisions_evaluated", "decisions_with_history", "verdicts_compared", "result_sequences_compared"],
}

CLASSIFY = {}
