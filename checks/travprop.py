"""Shared driver of the traversal-engine checks (C01-C05, C08, C10): generate cases, run them in children, apply one oracle."""

import collections
import sys
import time

from vlib.common import Verdict, parse_args, rng_for, load_replay, stable_hash
from vlib import par, travgen

RULES = {
    "C01": "non-trivial = >=1 execution start with a non-root required state checked against the store and (>=2 workers or a non-empty "
           "initial population); distinct by (suite shape, worker set, scope, population kind, interleaving signature)",
    "C02": "non-trivial = a failing/withheld outcome or >=2 workers; distinct by (suite shape, worker set, outcome plan, interleaving signature)",
    "C03": "non-trivial = >=2 workers of one scope executed or examined the same class; distinct by (scope kind, spawner, retry settings, signature)",
    "C04": "non-trivial = >=1 bounce from an occupied test observed; distinct by signature of overlaps and bounces",
    "C05": "non-trivial = the graph contains a state marked for removal with >=1 dependant; distinct by (suite shape, worker set, signature)",
    "C08": "non-trivial = some producer ran in this run on a different worker than a dependant; distinct by (worker set, signature)",
    "C10": "non-trivial = retries enabled, replay, or a non-PASS outcome; distinct by (settings, outcome plan, signature)",
}


def main(prop, case_source, deciding_counters, level="exploration", nontrivial=None, quick_cases=120, thorough_cases=2500,
         assumptions=(), classify=None, timeout=420):
    args = parse_args()
    verdict = Verdict(prop, args, level=level, rule=(
        "case = (generated mini-suite with a drawn setup DAG or the shipped suite) x test selection x vm restrictions x worker set "
        "(lxc / remote clusters / serial, incl. restricted workers) x run parameters (pool_scope, retries, ...) x initial pool "
        "population (empty / shared / own pools / residue of a run interrupted at a random virtual instant) x outcome plan x virtual "
        "durations, executed by the real traversal on a virtual-time loop; " + RULES[prop]))
    verdict.assumptions = ["what a test does to states is the harness's store model (fetch = state present in a listed, permitted location; "
                           "save on PASS/WARN into the executing worker's own pool)", "virtual time: durations and back-off are logical"] + list(assumptions)
    rng = rng_for(args, prop)
    if args.replay:
        witness = load_replay(args.replay)["witness"]
        cases = [witness["case"]]
    else:
        number = quick_cases if args.tier == "quick" else thorough_cases
        cases = (case_source(rng, index, args.tier) for index in range(number))

    def prepared(iterable):
        for case in iterable:
            case["oracles"] = [prop]
            yield case

    budget = args.budget or (None if args.replay else (900 if args.tier == "quick" else 3 * 3600))
    signatures = collections.Counter()
    walls = []
    for case, result in par.run_cases("vlib.travcheck:run_and_judge", prepared(cases), jobs=args.jobs, timeout=timeout, budget_s=budget):
        if "inconclusive" in result:
            verdict.inconclusive_case(result["inconclusive"][:100])
            # keep the case so that the reason can be investigated (never a verdict)
            import json, os
            from vlib.common import VERIF_OUT
            os.makedirs(os.path.join(VERIF_OUT, "replays"), exist_ok=True)
            with open(os.path.join(VERIF_OUT, "replays", f"{prop}-inconclusive-{stable_hash(case)}.json"), "w") as fd:
                json.dump({"property": prop, "mechanism": "inconclusive", "message": result["inconclusive"],
                           "witness": {"case": case}}, fd, indent=1, default=str)
            continue
        if "setup_exception" in result:
            exc = result["setup_exception"]
            if case.get("expect_error") and exc["type"] in case["expect_error"]:
                verdict.count("expected_rejections")
                verdict.case(signature=["rejected", case.get("params")], nontrivial=True)
                continue
            # a suite/graph that cannot even be parsed says nothing about this property (harness or C06's business)
            verdict.inconclusive_case(f"setup {exc['type']}: {exc['message'][:60]}")
            continue
        walls.append(result["wall"])
        counters = result["counters"].get(prop, {})
        for name, value in counters.items():
            if name.startswith("max_"):
                verdict.counters[name] = max(verdict.counters.get(name, 0), value)
            else:
                verdict.count(name, value)
        stats = result["stats"]
        verdict.count("executions_observed", stats["execs"])
        verdict.count("events_recorded", stats["events"])
        if stats.get("interrupted_first_run"):
            verdict.count("cases_starting_from_residue_of_interrupted_run")
        if stats.get("replayed_first_run"):
            verdict.count("cases_replaying_a_first_run")
        if stats["outcome_exception"] == "IterationBudget":
            verdict.inconclusive_case("iteration budget exceeded (workload too large)")
        signature = stable_hash(result["signature"])
        signatures[signature] += 1
        trivial = not (nontrivial(case, result, counters) if nontrivial else True)
        shape = [case.get("suite"), case["nets"], case.get("params"), case.get("population"), case["restriction"],
                 case.get("plan", {}).get("by_class"), signature]
        sample = None
        if not trivial and len(verdict.samples) < 3:
            sample = {k: v for k, v in case.items() if k not in ("suite_spec", "store", "oracles")}
            sample["stats"] = stats
        verdict.case(signature=shape, nontrivial=not trivial, sample=sample)
        for mechanism, message in result["findings"].get(prop, []):
            key = classify(mechanism, case, result) if classify else mechanism
            verdict.violation(key, message, {"case": case})
    verdict.extra["distinct_interleaving_signatures"] = len(signatures)
    if walls:
        verdict.extra["case_wall_s"] = {"mean": round(sum(walls) / len(walls), 2), "max": max(walls)}
    sys.exit(verdict.finish(min_counters=[] if args.replay else deciding_counters))
