#!/bin/bash
# Offline, idempotent: put icontract/deal beside the repository's interpreter (in /verif/.deps).
set -e
cd "$(dirname "$0")"
if [ ! -d .deps/icontract ]; then
    PIP_NO_INDEX=1 /venv/bin/pip install -q --no-index --find-links /opt/veriftools/wheels \
        --target .deps icontract deal >/dev/null 2>&1 || {
        echo "setup: could not install icontract/deal from the wheelhouse" >&2; exit 2; }
fi
mkdir -p evidence replays
/venv/bin/python -m compileall -q vlib checks >/dev/null 2>&1 || true
echo "setup ok"
