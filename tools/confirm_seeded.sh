#!/bin/bash
# usage: tools/confirm_seeded.sh seeded/<id>
# Confirms a seeded change on a scratch copy of /repo's current tree: the demonstration passes without the change and
# fails with it, and the pinned test suite still passes with it.  Writes seeded/<id>/confirm.json; removes the scratch copy.
set -u
DIR="$1"
cd /verif
SCR=$(mktemp -d /tmp/seedconfirm.XXXX)
rsync -a --exclude .git --exclude __pycache__ /repo/ $SCR/repo/
mkdir -p $SCR/home $SCR/tmp
# the demonstrations were written to live in <repo>/seeded_out/ (they find the selftests' helpers relative to themselves)
mkdir -p $SCR/repo/seeded_out; cp /verif/$DIR/*.py $SCR/repo/seeded_out/
DEMO=$SCR/repo/seeded_out/demo.py
(cd $SCR/repo && HOME=$SCR/home TMPDIR=$SCR/tmp PYTHONPATH=$SCR/repo timeout 1800 /venv/bin/python $DEMO > $SCR/demo_without.log 2>&1); WITHOUT=$?
(cd $SCR/repo && patch -p1 -s < /verif/$DIR/patch.diff) || { echo "patch does not apply"; rm -rf $SCR; exit 2; }
(cd $SCR/repo && HOME=$SCR/home TMPDIR=$SCR/tmp PYTHONPATH=$SCR/repo timeout 1800 /venv/bin/python $DEMO > $SCR/demo_with.log 2>&1); WITH=$?
if [ -n "${SKIP_TESTS:-}" ] && [ -f $DIR/confirm.json ]; then
  SUMMARY=$(python3 -c "import json; print(json.load(open('$DIR/confirm.json'))['pinned_tests_with_change'])")
else
  (cd $SCR/repo && HOME=$SCR/home TMPDIR=$SCR/tmp timeout 7200 /venv/bin/python -m pytest -ra -q -p no:cacheprovider --timeout=900 --continue-on-collection-errors > $SCR/tests.log 2>&1)
  SUMMARY=$(tail -1 $SCR/tests.log)
fi
tail -3 $SCR/demo_with.log > $DIR/demo_with_change.tail.txt
python3 - "$DIR" "$WITHOUT" "$WITH" "$SUMMARY" "$(git -C /repo rev-parse --short HEAD)" <<'PY'
import json, sys
d, without, with_, summary, head = sys.argv[1:]
json.dump({"repo_head": head, "demo_exit_without_change": int(without), "demo_exit_with_change": int(with_),
           "pinned_tests_with_change": summary}, open(f"/verif/{d}/confirm.json", "w"), indent=1)
PY
cat $DIR/confirm.json
rm -rf $SCR
