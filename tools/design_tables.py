#!/usr/bin/env python3
"""Rewrite the tables of DESIGN.md section 9.6 from audit/results.json and seeded/*/meta.json."""
import collections
import glob
import json
import os
import sys

HERE = os.path.dirname(os.path.dirname(os.path.abspath(__file__)))
sys.path.insert(0, os.path.join(HERE, "audit"))
from mutants import MUTANTS  # noqa

BEGIN, END = "<!-- tables:begin -->", "<!-- tables:end -->"


def main():
    results = {r["name"]: r for r in json.load(open(os.path.join(HERE, "audit", "results.json")))}
    notes = {m["name"]: m.get("note", "") for m in MUTANTS}
    per_property = collections.defaultdict(lambda: [0, 0, []])
    for mutant in MUTANTS:
        result = results.get(mutant["name"])
        if result is None:
            continue
        entry = per_property[mutant["property"]]
        entry[0] += 1
        if result["status"] == "caught":
            entry[1] += 1
        else:
            entry[2].append(mutant["name"])
    lines = [BEGIN, "", "**Deliberate single-hunk mutants** (`audit/mutants.py`, each applied to a scratch copy of /repo; the owning quick "
             "checks run against the copy; `audit/results.json`):", "", "| property | mutants | caught | not caught |", "|---|---|---|---|"]
    total = [0, 0]
    for prop in sorted(per_property):
        number, caught, missed = per_property[prop]
        total[0] += number
        total[1] += caught
        lines.append(f"| {prop} | {number} | {caught} | {'; '.join(missed) or '-'} |")
    lines.append(f"| all | {total[0]} | {total[1]} | |")
    lines.append("")
    for prop in sorted(per_property):
        for name in per_property[prop][2]:
            lines.append(f"* `{name}`: {notes.get(name) or 'not caught'}")
    lines += ["", "**Changes written by independent sub-agents** (given only the property text and a scratch worktree; `seeded/<id>/`: "
              "patch.diff, demo.py, notes.md, meta.json, confirm.json). Every change passes the pinned suite (269 passed) and has a "
              "demonstration that exits 0 without and 1 with the change; all confirmed on scratch copies by `tools/confirm_seeded.sh`. "
              "\"check result\" is the quick tier at seed 0 with the patch applied to /repo (`tools/try_seeded.sh`).", "",
              "| seeded change | property | what it needs to manifest | caught by | notes on the check |", "|---|---|---|---|---|"]
    for path in sorted(glob.glob(os.path.join(HERE, "seeded", "*", "meta.json"))):
        meta = json.load(open(path))
        name = os.path.basename(os.path.dirname(path))
        check = meta["verified_here"]["check"]
        remark = check.split(": ", 1)[1] if ": " in check else check
        lines.append(f"| `{name}` | {meta['property']} | {meta['needs_to_manifest']} | {', '.join(meta['caught_by']) or 'MISSED'} | {remark} |")
    lines += ["", END]
    path = os.path.join(HERE, "DESIGN.md")
    text = open(path).read()
    if BEGIN in text:
        text = text[:text.index(BEGIN)] + "\n".join(lines) + text[text.index(END) + len(END):]
    else:
        text = text.rstrip("\n") + "\n\n" + "\n".join(lines) + "\n"
    open(path, "w").write(text)
    print(f"{total[1]}/{total[0]} mutants caught; {len(glob.glob(os.path.join(HERE, 'seeded', '*', 'meta.json')))} seeded changes")


if __name__ == "__main__":
    main()
