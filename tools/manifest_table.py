# Table consumed by tools/mkmanifest.py (exec'd there; `check`, `PENDING` are provided).

NOTES = ("Runtime monitoring only: every check executes the real avocado-i2n code from /repo's working tree under "
         "generated/hostile workloads and decides with an oracle over what was observed. Verdicts are three-valued "
         "(violated / held on what was observed / inconclusive). known_findings.json lists recorded genuine defects "
         "(by mechanism) and fixed ones.")

ENGINES = [
    {"name": "S", "path": "checks/ (c11-c13, c16-c19), vlib/common.py", "serves_properties":
        ["C11", "C12", "C13", "C16", "C17", "C18", "C19"],
     "kind_free_text": "in-process harness: real functions driven with generated inputs through the selftests' seams, "
                       "icontract postconditions / reference-model comparison"},
]

check("C17", "S", "exploration", "runtime contract (icontract ensure) on the real show() functions vs set-intersection oracle over generated qemu-img listings",
      "All assignments of subsets of three state names to up to three images (and memory files) are enumerated and thousands of "
      "random listings in both qemu-img layouts are rendered; the real QCOW2VTBackend.show / QCOW2Backend.show / "
      "RamfileBackend._show are executed on them and a postcondition compares every result with the intersection computed "
      "independently. Sampling beyond the enumerated core: held on the executions observed, not a proof.",
      "Trusted: the port of qemu's size_to_str and row format used to render listings; QemuImg and os replaced at the same "
      "seams the selftests use.", "DESIGN.md §3 C17")
