# Table consumed by tools/mkmanifest.py (exec'd there; `check`, `PENDING` are provided).

NOTES = ("Runtime monitoring only: every check executes the real avocado-i2n code from /repo's working tree under "
         "generated/hostile workloads and decides with an oracle over what was observed. Verdicts are three-valued "
         "(violated / held on what was observed / inconclusive). known_findings.json lists recorded genuine defects "
         "(by mechanism) and fixed ones.")

ENGINES = [
    {"name": "S", "path": "checks/ (c11-c13, c16-c19), vlib/common.py", "serves_properties":
        ["C11", "C12", "C13", "C16", "C17", "C18", "C19"],
     "kind_free_text": "in-process harness: real functions driven with generated inputs through the selftests' seams, "
                       "icontract postconditions / reference-model comparison"},
]

check("C17", "S", "exploration", "runtime contract (icontract ensure) on the real show() functions vs set-intersection oracle over generated qemu-img listings",
      "All assignments of subsets of three state names to up to three images (and memory files) are enumerated and thousands of "
      "random listings in both qemu-img layouts are rendered; the real QCOW2VTBackend.show / QCOW2Backend.show / "
      "RamfileBackend._show are executed on them and a postcondition compares every result with the intersection computed "
      "independently (images configured read-only still count; lock files left by transfers lie beside the memory files). Sampling beyond the enumerated core: held on the executions observed, "
      "not a proof.",
      "Trusted: the port of qemu's size_to_str and row format used to render listings; QemuImg and os replaced at the same "
      "seams the selftests use.", "DESIGN.md §3 C17")

check("C16", "S", "exploration", "runtime contracts (icontract ensure) on the real PrefixTree / EdgeRegister methods vs naive scan and Counter shadow",
      "Postconditions on PrefixTree.get/__contains__ and EdgeRegister.get_counters/get_workers compare every answer with a naive model kept "
      "beside each live instance. The small scope (2 set variants, 3-4 letters, names <=3 variants, <=3 names, every insertion order, every "
      "query up to length 3) is enumerated completely; larger random name sets, random register/lookup sequences and real TestNode copies "
      "bridged in every order, both the way the parser does it (the new node bridges with all older ones) and the way the update tool does it "
      "(all ordered pairs), are sampled: registrations through one copy must be visible through all.",
      "Trusted: the naive contiguous-subsequence scan. Names obey the stated quantifier (set variant first and nowhere else, no repeated variant).",
      "DESIGN.md §3 C16")

check("C18", "S", "exploration", "icontract class invariant on the real VMNetwork + snapshot postconditions on VMNetconfig address arithmetic, ipaddress as reference",
      "A class invariant (every interface in exactly one netconfig, under its own address, inside the subnet, no duplicate address, every "
      "netconfig with its own allocation table; subnets with explicit and with the default range) is "
      "evaluated after construction and after every public method of the real VMNetwork on thousands of random topologies and "
      "allocate/drain/reattach/translate sequences and after moving whole subnets to another address with the same, no or another mask "
      "(the invariant also compares netmask and mask_bit of every netconfig); postconditions check first-free allocation, exactly-|range| "
      "exhaustion, host-offset preserving translation, the netmask/prefix round trip for all 33 prefix lengths on fresh objects and "
      "set/read sequences through both views of the mask on one reused netconfig.",
      "Trusted: python's ipaddress module. Plain reattachment only; static addresses inside the DHCP range are counted as observations, "
      "not judged (input precondition).", "DESIGN.md §3 C18")

check("C19", "S", "exploration", "differential oracle over the generated left/right parameters of real VMTunnel objects for the full type product",
      "For every combination of local x remote x peer x auth types (108 combinations incl. both spellings of 'no authentication') on random "
      "topologies and end point pairs the real VMTunnel is built and an oracle written from the documented rules compares both sides key by "
      "key (lan/remote nets, peer addresses, PSK identities, counterpart types), checks connects_nodes in both argument orders for every "
      "node pair, and checks that unsupported types raise ValueError without touching node parameters.",
      "Trusted: the oracle's reading of the documented counterpart rules; custom networks are existing subnets or overlap none.",
      "DESIGN.md §3 C19")

check("C12", "S", "exploration", "reference-model monitor: in-memory backend in the real BACKENDS registry, call log + store compared with a README-table model (icontract postconditions on the six functions)",
      "The complete single-object single-call table (3 ops x 25 two-letter modes over {a,r,i,f,other} x presence x root presence x root/ordinary "
      "state x nets/vms/images x 5 check modes, plus check/push/pop) is enumerated; random multi-object calls (1-3 vms x 1-2 images + net, "
      "per-object modes, skip_types, read-only images, parameters of unselected objects) and random sequences of up to 12 calls run against a "
      "set-of-names model; ordered backend calls, resulting store and exception class must agree, the failing step must not mutate and later "
      "objects must not be touched; the backend also records the pool_scope every state operation reaches it with, which must be the "
      "configured one (a pool-aware backend decides by it where to look), and the show_location of every presence lookup, which must be the "
      "location the operation itself addresses.",
      "Trusted: the model's reading of the README table and of the undocumented check_mode (second letter r/f when the root is missing, first "
      "letter f recreates the root). The in-memory backend is not a SourcedStateBackend.", "DESIGN.md §3 C12")

check("C13", "S", "exploration", "recording stub transport/local hooks under the real SourcedStateBackend / RootSourcedStateBackend; label-based scope oracle; in-memory file table under the real QCOW2ImageTransfer",
      "All ordered source lists of up to three of five labelled source kinds x all 16 scope subsets x show/get/set/unset are enumerated "
      "(state placements and cache validity sampled), longer random lists for lxc, remote and serial own workers, and all root "
      "operations x scope subsets x root presence x image equality; the transport call log must show: only permitted sources "
      "contacted, get uses exactly one closest permitted source and downloads iff present and cache invalid, set/unset reach "
      "every permitted mirror, refusals raise. Layer 2 keeps the real QCOW2ImageTransfer over an in-memory file table with "
      "generated backing chains: compare_chain == file-by-file equality, valid cache => no download, invalid => exactly the chain's files; "
      "the pool directory also holds lock files and unfinished copies (of present and of removed states) and the listing must report "
      "exactly the states whose own file is there.",
      "Trusted: source labels as ground truth for scopes; the proximity order own path > same host > same gateway > other. "
      "Remote (ssh/scp) transports are outside the workload.", "DESIGN.md §3 C13")

check("C11", "S", "exploration", "differential (Cartesian parser as reference) + metamorphic oracle on the real params_from_cmd / parse_flat_nodes",
      "Hundreds to thousands of argument lists built from the suite's own 65-test universe (only/no with '.', ',', '..' forms and primary "
      "sets, stacked only_vmX/no_vmX incl. empty values, vms=, nets=/only_nets=/no_nets=, K=V overrides, shuffled) run through the real "
      "params_from_cmd; the selection read from the real parse_flat_nodes must equal what the Cartesian parser yields for the "
      "documented restriction text, be invariant under argument permutation/duplication and under merging only= arguments with '..', "
      "per-vm texts and nets must follow the mapping, every K=V must be present in every parsed test, and malformed / unknown-vm / "
      "conflicting-net lists (both orders) must raise.",
      "Trusted: avocado-vt's Cartesian parser as the reference the property names. only_vmX=<unknown variant> is rejected only later by "
      "object parsing and is not judged here.", "DESIGN.md §3 C11")

ENGINES.append({"name": "L", "path": "checks/c14.py, vlib/par.py", "serves_properties": ["C14"],
                "kind_free_text": "multi-process lock/transfer harness: forked processes on real files with recording proxies and failpoints inside "
                                  "states.pool; offline interval / sequential-model oracles over the merged event log"})

check("C14", "L", "fault_enumeration", "offline checker over recorded multi-process event logs: lock-interval overlap, containment of file accesses, replay of a sequential model in lock order; failpoints (sleep/raise/SIGKILL) inside the critical section",
      "Every operation x failpoint (after acquire, after compare, mid copy, after copy, before unlock) x fault kind (sleep, exception, "
      "SIGKILL) is enumerated with waiters queued behind the faulting holder, plus waiters whose timeout is shorter than the holder's "
      "sleep; hundreds of random histories of 2-8 real processes (own cache files with unique token contents, equal contents, links, dead "
      "links) run the real TransferOps on one pool path under real fcntl locks. Interleavings are sampled (the evidence counts concurrent "
      "process pairs and lock intervals actually compared); the fault space is enumerated.",
      "Trusted: the kernel's fcntl/lockf semantics and a system-wide monotonic clock; recorded lock intervals are subsets of the real hold "
      "intervals; remote transports (which have no locking) are outside.", "DESIGN.md §3 C14")

ENGINES.append({"name": "T", "path": "vlib/travsim.py, vlib/vclock.py, vlib/oracles_trav.py, vlib/travgen.py, checks/travprop.py",
                "serves_properties": ["C01", "C02", "C03", "C04", "C05", "C08", "C10"],
                "kind_free_text": "traversal simulator: the real parsing, traverse_object_trees and run_test_node on a virtual-time asyncio loop; "
                                  "seams replaced: run_test_task (store-model test execution), remote door (runs the real check/get/unset_states "
                                  "on in-memory backends under the real SourcedStateBackend), wait_for_login; offline oracles over the event log"})
ENGINES.append({"name": "G", "path": "vlib/suitegen.py", "serves_properties": ["C01", "C02", "C03", "C04", "C05", "C06", "C07", "C08", "C09", "C10"],
                "kind_free_text": "generator of complete mini test suites with a drawn, known setup DAG (multi-object leaves, multi-producer groups, "
                                  "removable states, restricted workers)"})
ENGINES.append({"name": "P", "path": "vlib/graphsnap.py, checks/parseprop.py", "serves_properties": ["C06", "C07", "C09"],
                "kind_free_text": "parse checker: canonical description of eagerly and lazily parsed graphs; structural, declared-dependency and "
                                  "copy/bridging/lazy-vs-eager oracles"})

_T_NOTE = ("Trusted: the harness's store model of what a test does to states (a test finds a state iff it is in a listed location whose scope is "
           "enabled, and saves its states into the executing worker's own pool on PASS/WARN), virtual time, and generated suites parsed by the "
           "real Cartesian parser. Interleavings are sampled, not enumerated; evidence reports distinct interleaving signatures.")

check("C01", "T", "exploration", "offline checker over the simulated traversal's event log: every execution start is checked against a store model (exists in a listed + permitted location?), with the stated exceptions",
      "The real traversal of 1-5 workers (lxc, remote clusters, serial, restricted workers) runs on generated suites and shipped selections "
      "under random virtual durations, failing-test placements, pool scopes and initial pool populations incl. the residue of a run "
      "interrupted at a random instant; at each test start every non-root required state must be present in a location the test names "
      "and may use, unless its producer was attempted and did not pass or the object is permanent.", _T_NOTE, "DESIGN.md §3 C01")
check("C02", "T", "exploration", "bounded-progress monitor on the virtual-time loop (deadlock detector, iteration budget) + end-state audit of selected tests",
      "Termination is decided on logical steps: a loop in which every task waits with no pending timer is a deadlock, an iteration budget "
      "marks runaway cases inconclusive; any exception out of the gathered traversals is a violation; at the end every selected test that "
      "some worker can compose was executed (or reused) and carries no pending status; dry runs execute nothing and change nothing. The family "
      "'exactly one class or creation step fails persistently' is cycled through all classes of each graph.", _T_NOTE, "DESIGN.md §3 C02")
check("C03", "T", "exploration", "offline counting of executions per (worker-invariant class, reuse scope) + first-examination clause from door events",
      "Executions are grouped by class key and harness-computed reuse scope (worker / swarm / run) and compared with the retry budget; the "
      "two-step creation is merged into one execution; a setup test whose states were all present when first examined must not run in that "
      "scope; flat tests and clone sources must never execute. Workloads stress ties and epsilon-ties between workers.", _T_NOTE,
      "DESIGN.md §3 C03")
check("C04", "T", "exploration", "interval sweep over execution start/end sequence numbers per (class, scope); back-off length check",
      "Maximal overlap of executions per class and scope must stay within max_concurrent_tries (runs where an execution outlasts its timeout "
      "budget are excluded from the overlap clause as the property states), the limit being the configured one (the traversal raises the "
      "parameter itself when it gives up waiting); workloads include retries whose tries last most of their timeout. Every back-off sleep has "
      "the documented length, and 'looks for other work' is checked as bounded progress: no more than 10 consecutive bounces of a compatible "
      "worker while a test whose producers all finished in this run waits unstarted.", _T_NOTE,
      "DESIGN.md §3 C04")
check("C05", "T", "exploration", "offline checker relating every state removal / unset request to the executions that use that copy of the state",
      "Every removal is related to the dependants that use that copy (tests of the owning worker, or tests told to fetch from that pool with an "
      "enabled scope): none may be running or still pending; states not marked for removal are never unset or removed; with pool_filter "
      "reuse/block nothing is copied while backing out. Workloads include one removable state with several dependants, several workers of one "
      "remote swarm under a scope without 'cluster', and workers that join late; expansions of selected tests are recorded to tell the known "
      "lazy-parsing findings from other premature removals.", _T_NOTE, "DESIGN.md §3 C05")
check("C08", "T", "exploration", "oracle at every execution start: executing worker, connection parameters, restrictions and listed sources vs producers with a passing result",
      "At each test start the executing worker must be the one the test was parsed for, with its connection parameters and admitted by its "
      "restrictions (own evaluation of only/no lines); for every required state the listed non-shared sources must equal the workers with a "
      "passing result of the producer before that instant (sequence-number exact) or in a replayed previous job, the shared pool must be "
      "listed and the access parameters of every listed worker must be present and correct. A third of the cases replay a first run (through a "
      "real results.json) with the same, a smaller, a larger or a disjoint worker set.", _T_NOTE, "DESIGN.md §3 C08")
check("C10", "T", "exploration", "decision-table oracle evaluated at every execution start and at quiescence; uid / result-sequence / verdict comparison",
      "At each execution start the statuses known so far (completed + in-flight + replayed) must allow the try; at the end no try may be "
      "due; uids are unique and every node's recorded results equal what was reported for its executions; invalid retry settings must "
      "raise; all_results_ok() is compared with the acceptable-result rule. Replay cases run a second job on the results of the first "
      "(other worker sets, replay defaults or explicit settings, own pools kept or wiped): a test with tries left and only rerun-worthy "
      "previous results must run again, one whose previous results forbid it must not, unless a state it produces is missing from the "
      "examining worker's own and the shared pool.", _T_NOTE, "DESIGN.md §3 C10")
_P_NOTE = ("Trusted: the generator's drawn DAG as ground truth for generated suites and a hand-written parent table for the shipped suite; "
           "virttest's Params for resolving per-object parameters.")
check("C06", "P", "exploration", "structural invariant checker over canonical descriptions of really parsed graphs (eager and after lazy expansion)",
      "Acyclicity, single starting node, reachability, two-sided edges with equal object sets, unique identities (node ids, and one node "
      "per test, worker and objects whatever test set it was reached through), exactly one same-worker "
      "parent producing exactly each required state, one net object first, vms equal to the parameters, clone sources marked non-runnable.",
      _P_NOTE, "DESIGN.md §3 C06")
check("C07", "P", "exploration", "comparison of parsed parents with the known (drawn or hand-declared) dependency DAG; clone-per-producer checks",
      "Every parsed node's parents per vm must equal the declared ones (none missing, spurious or duplicated per worker); dependants of "
      "several producers must be cloned once per producer (a clone source without runnable clones counts as zero) with branch-specific state "
      "names, and their own dependants consistently. Worker sets include restricted workers named first and three or four workers on deep "
      "cloning suites.", _P_NOTE,
      "DESIGN.md §3 C07")
check("C09", "P", "exploration", "per-worker canonical subgraph comparison, bridge/register identity check, lazy-vs-eager and parse-twice comparison",
      "Per-worker copies must have identical dependencies for every class they share; equivalent tests of all workers must be linked "
      "pairwise and share the same four register objects; after a lazy traversal every expanded test has the parents of the up-front graph "
      "and every selected compatible leaf was expanded; parsing twice gives the same graph. Besides the drawn cases every run covers a "
      "run-wide override of a parameter the shipped configuration sets itself (it must reach every parsed test) and a "
      "fixed core: each shipped selection (incl. selections mixing test sets and vm restrictions spelled like an alternative of a test's "
      "own OR-restriction) once.", _P_NOTE, "DESIGN.md §3 C09")

ENGINES.append({"name": "Tools", "path": "vlib/toolsim.py, checks/c15.py, checks/c20.py", "serves_properties": ["C15", "C20"],
                "kind_free_text": "tool-level engine: intertest_setup.update and Manu.run chains on the traversal simulator's seams plus the selftests' "
                                  "job seam; executions and state requests attributed to steps"})

check("C15", "Tools", "exploration", "differential oracle: executions and unset requests observed during the real intertest_setup.update vs path/descendant sets of the drawn setup tree",
      "For generated suites (state names equal setup test names) every ancestor-or-self pair (from_state, to_state) that lies in the remove-set "
      "graph, selections of 1-2 of up to 3 vms, remove_set values and 1-3 workers are sampled; executed setup tests must be exactly the path "
      "(each once), unset requests on every worker exactly the vm's states below the target, nothing of unselected vms; nonexistent "
      "from/to states and targets outside the remove-set graph must raise. A third of the cases use three workers on two selected vms; "
      "per-vm remove sets (remove_set_<vm>) differing from the generic one are drawn; under isolated pools (lxc workers, pool_scope without "
      "'swarm') every worker must execute the path once for its own pool.",
      "Trusted: the drawn setup tree; remove_set=all (which selects object creation tests as leaves) and to_state=install (hard-wired to the "
      "shipped 'customize' test) are outside the workload.", "DESIGN.md §3 C15")
check("C20", "Tools", "exploration", "step-attributed execution counting through the real Manu.run with failure injection (failing test class / exception inside a step)",
      "Chains of 1-5 steps over 17 built-in steps (incl. repeated steps), vm selections, per-vm variant restrictions and worker sets with "
      "restricted workers: per step, exactly one execution per selected vm and admitting worker (one per worker covering all vms for vm "
      "management steps), carrying the step's action and the user's parameter, none for unselected vms, steps in order and all executed "
      "even after a failing one (failing test class, or one of seven exception types raised inside a step), return code 1 iff some step "
      "failed; a step that keeps executing until the job timeout or the iteration budget did not finish. A fifth of the cases have a worker "
      "that is incompatible with the vm iterated last only.",
      "Trusted: the harness's own evaluation of only/no restrictions for worker compatibility; run/list/unittest steps need a real avocado job "
      "and are not driven.", "DESIGN.md §3 C20")
