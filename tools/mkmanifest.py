#!/venv/bin/python
"""Regenerate MANIFEST.json from the table below (keeps it schema-valid at all times)."""

import json
import os
import subprocess

HERE = os.path.dirname(os.path.dirname(os.path.abspath(__file__)))

# id -> (engine, level category, technique, level text, level note, design ref)
CHECKS = {}
PENDING = {}


def check(pid, engine, category, technique, text, note, ref):
    CHECKS[pid] = dict(engine=engine, category=category, technique=technique, text=text, note=note, ref=ref)


exec(open(os.path.join(HERE, "tools", "manifest_table.py")).read())

ALL = [f"C{i:02d}" for i in range(1, 21)]


def main():
    repo_commits = subprocess.run(["git", "-C", "/repo", "log", "--format=%h %s"], capture_output=True, text=True).stdout
    hook_commits = [line.split()[0] for line in repo_commits.splitlines() if " verif-hook:" in line]
    manifest = {
        "version": 1,
        "setup_cmd": "./setup.sh",
        "hooks": {
            "guard": "AVOCADO_I2N_VERIF",
            "enable": "none needed in the source: all instrumentation is attribute patching applied from /verif at import "
                      "time (./check exports AVOCADO_I2N_VERIF=1 and puts $VERIF_REPO first on PYTHONPATH so the current "
                      "working tree is what runs)",
            "baseline_off_cmd": "cd /repo && /venv/bin/python -m pytest -ra -q -p no:cacheprovider --timeout=900 "
                                "--continue-on-collection-errors selftests/isolation",
            "source_commits": hook_commits,
            "add_only": True,
        },
        "engines": ENGINES,
        "checks": [],
        "notes": NOTES,
        "not_applicable": [],
    }
    for pid in ALL:
        if pid in CHECKS:
            c = CHECKS[pid]
            manifest["checks"].append({
                "property_id": pid,
                "quick_cmd": f"./check {pid} --tier quick",
                "thorough_cmd": f"./check {pid} --tier thorough",
                "evidence_file": f"evidence/{pid}.json",
                "replay_cmd_template": f"./check {pid} --replay {{path}}",
                "engine": c["engine"],
                "level_claimed": {"category": c["category"], "text": c["text"], "design_ref": c["ref"]},
                "level_note": c["note"],
                "technique": c["technique"],
            })
        else:
            manifest["not_applicable"].append({"property_id": pid, "reason": PENDING.get(
                pid, "not claimed yet: the runtime monitor for this property is designed (DESIGN.md) but not built")})
    with open(os.path.join(HERE, "MANIFEST.json"), "w") as fd:
        json.dump(manifest, fd, indent=1)
    try:
        import jsonschema
        jsonschema.validate(manifest, json.load(open("/root/.vp/MANIFEST.schema.json")))
        print("MANIFEST.json valid:", len(manifest["checks"]), "checks,", len(manifest["not_applicable"]), "not claimed")
    except ImportError:
        print("MANIFEST.json written (jsonschema not importable here)")


if __name__ == "__main__":
    main()
