#!/bin/bash
# usage: tools/try_seeded.sh seeded/<id> C01 [C03 ...]   - apply the seeded change to /repo, run the checks and the demo, undo
set -u
DIR="$1"; shift
cd /verif
if ! git -C /repo diff --quiet; then echo "refusing: /repo has uncommitted changes"; exit 2; fi
git -C /repo apply "$PWD/$DIR/patch.diff" || { echo "patch does not apply"; exit 2; }
OUT=$(mktemp -d /tmp/seed_out.XXXX)
for c in "$@"; do
  for seed in ${SEEDS:-0}; do
    VERIF_SEED=$seed VERIF_OUT=$OUT VERIF_JOBS=${VERIF_JOBS:-14} ./check $c 2>&1 | grep "^$c: \(VIOL\|held\|viol\)\|^KNOWN" | cut -c1-400 | sed "s/^/[seed $seed] /"
  done
done
git -C /repo checkout -- .
git -C /repo status --short | grep -v '^??'
rm -rf $OUT
