#!/bin/bash
# usage: tools/try_seeded_copy.sh seeded/<id> C01 [C03 ...] - like try_seeded.sh but on a scratch copy of /repo (VERIF_REPO)
set -u
DIR="$1"; shift
cd /verif
SCR=$(mktemp -d /tmp/seedrepo.XXXX)
rsync -a --exclude .git --exclude __pycache__ /repo/ $SCR/repo/
(cd $SCR/repo && patch -p1 -s < /verif/$DIR/patch.diff) || { echo "patch does not apply"; rm -rf $SCR; exit 2; }
for c in "$@"; do
  for seed in ${SEEDS:-0}; do
    VERIF_REPO=$SCR/repo VERIF_SEED=$seed VERIF_OUT=$SCR/out VERIF_JOBS=${VERIF_JOBS:-10} ./check $c ${TIER:+--tier $TIER} 2>&1 | grep "^$c: \(VIOL\|held\|viol\)\|^KNOWN" | cut -c1-600 | sed "s/^/[seed $seed] /"
  done
done
mkdir -p $SCR/home $SCR/repo/seeded_out; cp $DIR/*.py $SCR/repo/seeded_out/
(cd $SCR/repo && HOME=$SCR/home PYTHONPATH=$SCR/repo timeout 900 /venv/bin/python seeded_out/demo.py > $SCR/demo_with.log 2>&1; echo "demo with change: exit $?")
rm -rf $SCR
