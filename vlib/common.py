"""Shared plumbing of all checks: arguments, verdict bookkeeping, evidence, known findings, replay files."""

import argparse
import hashlib
import json
import os
import random
import sys
import time

VERIF_HOME = os.environ.get("VERIF_HOME", os.path.dirname(os.path.dirname(os.path.abspath(__file__))))
VERIF_REPO = os.environ.get("VERIF_REPO", "/repo")
#: where evidence/ and replays/ are written (the audit redirects it so mutated runs never touch committed evidence)
VERIF_OUT = os.environ.get("VERIF_OUT", VERIF_HOME)
PYTHON = "/venv/bin/python"


def parse_args(argv=None):
    parser = argparse.ArgumentParser()
    parser.add_argument("--tier", default=os.environ.get("VERIF_TIER", "quick"), choices=["quick", "thorough"])
    parser.add_argument("--seed", type=int, default=int(os.environ.get("VERIF_SEED", "0")))
    parser.add_argument("--replay", default=None)
    parser.add_argument("--jobs", type=int, default=int(os.environ.get("VERIF_JOBS", "16")))
    parser.add_argument("--budget", type=float, default=None, help="override wall-clock budget (s)")
    return parser.parse_args(argv)


def stable_hash(obj) -> str:
    return hashlib.sha1(json.dumps(obj, sort_keys=True, default=str).encode()).hexdigest()[:16]


def load_findings():
    path = os.path.join(VERIF_HOME, "known_findings.json")
    if not os.path.exists(path):
        return {"findings": [], "fixed": []}
    with open(path) as fd:
        return json.load(fd)


class Verdict:
    """
    Three-valued bookkeeping for one run of one property's check.

    violated:      witness recorded, VIOLATION line printed unless its mechanism is a listed known finding
    inconclusive:  counted with reason, never folded into the others
    held:          everything else, with what was actually observed
    """

    def __init__(self, prop: str, args, level: str = "exploration", rule: str = ""):
        self.prop = prop
        self.args = args
        self.level = level
        self.rule = rule
        self.t0 = time.time()
        self.evaluations = 0
        self.distinct = set()
        self.samples = []
        self.max_samples = 4
        self.violations = []          # (mechanism key, message, replay path)
        self.known_hits = {}          # mechanism key -> count
        self.inconclusive = {}        # reason -> count
        self.counters = {}            # free-form monitor counters
        self.extra = {}
        self.assumptions = []
        self.exhaustive = None
        self._known = {f["key"]: f for f in load_findings().get("findings", []) if f.get("property") == prop}
        self._printed_known = set()
        self._printed_viol = 0
        if not args.replay:
            # witnesses of earlier runs of this check are stale
            import glob
            for stale in glob.glob(os.path.join(VERIF_OUT, "replays", f"{prop}-*.json")):
                try:
                    os.unlink(stale)
                except OSError:
                    pass

    # -- recording -------------------------------------------------------------------------
    def count(self, name: str, n: int = 1):
        self.counters[name] = self.counters.get(name, 0) + n

    def case(self, signature=None, nontrivial: bool = True, sample=None):
        """Register one evaluated case; signature identifies distinct non-trivial cases."""
        self.evaluations += 1
        if nontrivial and signature is not None:
            self.distinct.add(signature if isinstance(signature, str) else stable_hash(signature))
        if sample is not None and len(self.samples) < self.max_samples:
            self.samples.append(sample)

    def inconclusive_case(self, reason: str):
        self.inconclusive[reason] = self.inconclusive.get(reason, 0) + 1

    def violation(self, mechanism: str, message: str, witness: dict):
        """
        Record a violation with its witness.

        The mechanism string is what a known finding is keyed by (never a seed / hash / random value).
        """
        if mechanism in self._known:
            self.known_hits[mechanism] = self.known_hits.get(mechanism, 0) + 1
            if mechanism not in self._printed_known:
                self._printed_known.add(mechanism)
                path = self._write_replay(witness, message, mechanism, known=True)
                print(f"KNOWN-FINDING: property={self.prop} {self._known[mechanism].get('what', mechanism)} (witness {path})",
                      flush=True)
            return
        path = self._write_replay(witness, message, mechanism) if len(self.violations) < 20 else "(suppressed)"
        self.violations.append((mechanism, message, path))
        if self._printed_viol < 10:
            self._printed_viol += 1
            print(f"VIOLATION property={self.prop} replay={path}", flush=True)
            print(f"  mechanism: {mechanism}\n  {message}"[:2000], flush=True)

    def _write_replay(self, witness, message, mechanism, known=False):
        os.makedirs(os.path.join(VERIF_OUT, "replays"), exist_ok=True)
        name = f"{self.prop}-{'known-' if known else ''}{stable_hash([mechanism, witness])}.json"
        path = os.path.join(VERIF_OUT, "replays", name)
        with open(path, "w") as fd:
            json.dump({"property": self.prop, "mechanism": mechanism, "message": message, "witness": witness},
                      fd, indent=1, default=str)
        return os.path.relpath(path, VERIF_OUT)

    # -- finishing -------------------------------------------------------------------------
    def finish(self, min_counters=()):
        """Write evidence and return the process exit code."""
        for name in min_counters:
            if self.counters.get(name, 0) == 0:
                self.inconclusive_case(f"deciding counter '{name}' is zero")
                print(f"INCONCLUSIVE property={self.prop} reason=deciding counter {name} never incremented", flush=True)
        for reason, number in sorted(self.inconclusive.items()):
            print(f"INCONCLUSIVE property={self.prop} cases={number} reason={reason}"[:400], flush=True)
        coverage = {
            "evaluations": self.evaluations,
            "distinct_nontrivial": len(self.distinct),
            "rule": self.rule,
            "samples": self.samples,
            "monitor_counters": self.counters,
            "inconclusive": self.inconclusive,
            "known_findings_matched": self.known_hits,
        }
        if self.violations:
            coverage["violation_mechanisms"] = sorted({m for m, _, _ in self.violations})
        if self.exhaustive is not None:
            coverage["exhaustive"] = self.exhaustive
        coverage.update(self.extra)
        evidence = {
            "property_id": self.prop,
            "tier": self.args.tier,
            "seed": self.args.seed,
            "level": self.level,
            "coverage": coverage,
            "assumptions": self.assumptions,
            "wall_s": round(time.time() - self.t0, 2),
            "violations": len(self.violations),
        }
        if not self.args.replay:
            os.makedirs(os.path.join(VERIF_OUT, "evidence"), exist_ok=True)
            with open(os.path.join(VERIF_OUT, "evidence", f"{self.prop}.json"), "w") as fd:
                json.dump(evidence, fd, indent=1, default=str)
        mechanisms = {}
        for mechanism, _, _ in self.violations:
            mechanisms[mechanism] = mechanisms.get(mechanism, 0) + 1
        if mechanisms:
            print(f"{self.prop}: violation mechanisms {json.dumps(mechanisms, sort_keys=True)}"[:3000], flush=True)
        # a run whose deciding monitors were never reached (or that evaluated nothing) did not decide anything
        undecided = not self.args.replay and (self.evaluations == 0 or any(self.counters.get(name, 0) == 0 for name in min_counters))
        verdict = "VIOLATED" if self.violations else ("INCONCLUSIVE (deciding monitors not reached)" if undecided else "held on what was observed")
        print(f"{self.prop}: {verdict}; evaluations={self.evaluations} distinct_nontrivial={len(self.distinct)} "
              f"violations={len(self.violations)} known={sum(self.known_hits.values())} "
              f"inconclusive={sum(self.inconclusive.values())} wall={evidence['wall_s']}s", flush=True)
        print(f"{self.prop}: counters {json.dumps(self.counters, sort_keys=True)}"[:3000], flush=True)
        return 1 if self.violations else (2 if undecided else 0)


def rng_for(args, *salt):
    return random.Random(f"{args.seed}-{'-'.join(str(s) for s in salt)}")


def load_replay(path):
    if not os.path.isabs(path) and not os.path.exists(path):
        path = os.path.join(VERIF_HOME, path)
    with open(path) as fd:
        return json.load(fd)
