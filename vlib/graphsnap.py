"""
Engine P - parse checker (child side): parse a graph eagerly / lazily with the real code and emit a canonical,
JSON-able description of it; structural oracles (C06), declared-dependency oracle (C07) and copy/bridge/lazy
oracles (C09) run on these descriptions only.
"""

import collections
import re
import time
import traceback

from vlib import travsim, suitegen
from vlib.travsim import class_key, worker_of_name, node_state_view, ROOTS


def snapshot(graph, main_restrictions):
    from virttest.utils_params import Params
    nodes = []
    # the same node object may be listed more than once (reused clones are appended again): one entry per object
    unique_nodes, listed_twice = [], 0
    seen_objects = set()
    for node in graph.nodes:
        if id(node) in seen_objects:
            listed_twice += 1
            continue
        seen_objects.add(id(node))
        unique_nodes.append(node)
    index_of = {id(node): i for i, node in enumerate(unique_nodes)}
    for node in unique_nodes:
        name = node.params["name"]
        flat = node.is_flat()
        view = [] if flat else node_state_view(Params(dict(node.params)))
        objects = []
        for test_object in node.objects:
            objects.append({"key": test_object.key, "long_suffix": test_object.long_suffix, "id": test_object.id})

        def object_ref(test_object):
            # same keys as node_state_view: vm -> object id, image -> "<vm object id>/<image>"
            if test_object.key == "images":
                vm = test_object.composites[0] if test_object.composites else None
                return f"{vm.id if vm else '?'}/{test_object.suffix}"
            if test_object.key == "vms":
                return test_object.id
            return "net:" + test_object.long_suffix
        entry = {
            "i": index_of[id(node)], "name": name, "prefix": node.prefix, "id": node.id, "cls": class_key(name, main_restrictions),
            "worker": worker_of_name(name), "flat": flat, "shared_root": node.is_shared_root(),
            "object_root": node.params.get("object_root"), "clone_source": len(node.cloned_nodes) > 0,
            "clones": [index_of.get(id(c), -1) for c in node.cloned_nodes],
            "objects": objects, "vms_param": node.params.get("vms", ""),
            "nets_param": node.params.get("nets", ""),
            "gets": {e["obj"]: e["get"] for e in view if e["get"]},
            "sets": {e["obj"]: e["set"] for e in view if e["set"]},
            "get_restr": {},
            "setup": [[index_of.get(id(p), -1), sorted(object_ref(o) for o in objs)] for p, objs in node.setup_nodes.items()],
            "cleanup": [[index_of.get(id(c), -1), sorted(object_ref(o) for o in objs)] for c, objs in node.cleanup_nodes.items()],
            "bridged": [index_of.get(id(b), -1) for b in node.bridged_nodes],
            "marker": node.params.get("kill_vm_gracefully"),
            "registers": [id(node._picked_by_setup_nodes), id(node._dropped_setup_nodes),
                          id(node._picked_by_cleanup_nodes), id(node._dropped_cleanup_nodes)],
            "incompatible_workers": sorted(node.incompatible_workers),
            "runnable": None,
        }
        if not flat:
            for test_object in node.objects:
                typed = test_object.object_typed_params(node.params)
                if typed.get("get"):
                    entry["get_restr"][object_ref(test_object)] = typed.get("get")
        nodes.append(entry)
    workers = {w.id: {"restrs": dict(w.restrs), "swarm": w.swarm_id} for w in graph.workers.values()}
    return {"nodes": nodes, "workers": workers, "n_objects": len(graph.objects), "listed_twice": listed_twice}


# --------------------------------------------------------------------------------------------------------
# C06: well-formedness
# --------------------------------------------------------------------------------------------------------

def oracle_c06(snap, stage):
    findings, counters = [], collections.Counter()
    nodes = snap["nodes"]
    by_i = {n["i"]: n for n in nodes}

    def add(mechanism, message):
        findings.append((f"{mechanism}", f"[{stage}] {message}"))

    # dangling references
    for node in nodes:
        for ref, _ in node["setup"] + node["cleanup"]:
            if ref not in by_i:
                add("edge to a node that is not in the graph", f"{node['name']} -> #{ref}")
    # identity
    ids = collections.Counter(n["id"] for n in nodes)
    for ident, number in ids.items():
        counters["identities_checked"] += 1
        if number > 1:
            add("two nodes with the same identity", f"{ident} x{number}")
    # ... also when the test was reached through different test sets (all.x as somebody's setup, normal.x as a selected test):
    # the same test for the same worker and objects is one node
    semantic = collections.Counter((n["cls"], n["worker"]) for n in nodes if not n["flat"] and not n["shared_root"] and not n["clone_source"])
    for (cls, worker), number in semantic.items():
        counters["set_invariant_identities_checked"] += 1
        if number > 1:
            add("two nodes with the same identity (same test, worker and objects under different test sets)", f"{cls} on {worker} x{number}")
    # exactly one starting node, everything reachable
    roots = [n for n in nodes if n["shared_root"]]
    if len(roots) != 1:
        add("not exactly one starting node", f"{len(roots)} shared roots")
    else:
        seen, stack = set(), [roots[0]["i"]]
        while stack:
            current = stack.pop()
            if current in seen or current not in by_i:
                continue
            seen.add(current)
            stack.extend(ref for ref, _ in by_i[current]["cleanup"])
        unreachable = [n for n in nodes if n["i"] not in seen]
        counters["reachability_checked"] += len(nodes)
        if unreachable:
            add("node not reachable from the starting node", f"{[n['name'][-80:] for n in unreachable[:4]]} ({len(unreachable)})")
    # symmetry of edges with equal object sets
    for node in nodes:
        for ref, objs in node["setup"]:
            counters["edges_checked"] += 1
            parent = by_i.get(ref)
            if parent is None:
                continue
            back = [o for r, o in parent["cleanup"] if r == node["i"]]
            if not back:
                add("dependency recorded on one end only", f"{node['name'][-70:]} lists parent {parent['name'][-70:]} which does not list it as child")
            elif back[0] != objs:
                add("dependency recorded with different objects on its two ends", f"{node['name'][-60:]}: {objs} vs {back[0]}")
        for ref, objs in node["cleanup"]:
            child = by_i.get(ref)
            if child is None:
                continue
            if not [1 for r, o in child["setup"] if r == node["i"]]:
                add("dependency recorded on one end only", f"{node['name'][-70:]} lists child {child['name'][-70:]} which does not list it as parent")
    # acyclic
    state = {}
    cyclic = []

    def visit(start):
        stack = [(start, iter(ref for ref, _ in by_i[start]["setup"]))]
        state[start] = 1
        while stack:
            current, iterator = stack[-1]
            for ref in iterator:
                if ref not in by_i:
                    continue
                if state.get(ref) == 1:
                    cyclic.append((current, ref))
                elif ref not in state:
                    state[ref] = 1
                    stack.append((ref, iter(r for r, _ in by_i[ref]["setup"])))
                    break
            else:
                state[current] = 2
                stack.pop()
    for node in nodes:
        if node["i"] not in state:
            visit(node["i"])
    counters["nodes_checked"] += len(nodes)
    if cyclic:
        add("dependency cycle", f"{[(by_i[a]['name'][-50:], by_i[b]['name'][-50:]) for a, b in cyclic[:3]]}")
    # per required state exactly one parent of the same worker and object variant producing exactly that state
    for node in nodes:
        if node["flat"] or node["shared_root"]:
            continue
        nets = [o for o in node["objects"] if o["key"] == "nets"]
        if len(nets) != 1 or node["objects"][0]["key"] != "nets":
            add("test does not use exactly one network object as its first object", f"{node['name'][-80:]}: {[o['key'] for o in node['objects']]}")
        vms = sorted(o["long_suffix"] for o in node["objects"] if o["key"] == "vms")
        if vms != sorted(node["vms_param"].split()):
            add("test objects differ from the vms its parameters name", f"{node['name'][-80:]}: {vms} vs {node['vms_param']}")
        if node["clone_source"]:
            counters["clone_sources_checked"] += 1
            if not node["prefix"].startswith("0"):
                add("clone source without the non-runnable marking", f"{node['name'][-80:]} prefix {node['prefix']}")
            continue
        for obj, state_name in node["gets"].items():
            if state_name in ROOTS or obj not in node["get_restr"]:
                continue
            counters["required_states_checked"] += 1
            parents = [by_i[ref] for ref, objs in node["setup"] if obj in objs and ref in by_i]
            if len(parents) != 1:
                add("required state without exactly one parent", f"{node['name'][-80:]} needs {state_name} of {obj}: {len(parents)} parents "
                    f"{[p['name'][-60:] for p in parents]}")
                continue
            parent = parents[0]
            if parent["flat"]:
                continue
            if parent["worker"] != node["worker"]:
                add("parent belongs to another worker", f"{node['name'][-70:]} <- {parent['name'][-70:]}")
            if parent["sets"].get(obj) != state_name:
                add("parent does not produce exactly the required state (or belongs to another object variant)",
                    f"{node['name'][-70:]} needs {state_name} of {obj} but parent {parent['name'][-70:]} sets {parent['sets']}")
    return findings, counters


# --------------------------------------------------------------------------------------------------------
# C09: equivalent linked copies, lazy == eager, determinism
# --------------------------------------------------------------------------------------------------------

def canonical(snap):
    """Worker-specific canonical form: {worker: {cls: sorted parents [(parent cls, objs)]}}"""
    by_i = {n["i"]: n for n in snap["nodes"]}
    result = collections.defaultdict(dict)
    for node in snap["nodes"]:
        if node["flat"] or node["shared_root"] or node["clone_source"]:
            # clone sources never run: what they hang on is irrelevant
            continue
        parents = sorted((by_i[ref]["cls"], [o.split("-", 1)[0] + "/" + o.rsplit("/", 1)[-1] if "/" in o else o.split("-", 1)[0] for o in objs])
                         for ref, objs in node["setup"] if ref in by_i and not by_i[ref]["flat"] and not by_i[ref]["shared_root"])
        result[node["worker"]].setdefault(node["cls"], []).append(parents)
    return {w: {k: sorted(v) for k, v in d.items()} for w, d in result.items()}


def worker_admits(worker, cls, vm_strs):
    """Independent decision whether a worker's own restrictions admit the vm variants of a class key."""
    from vlib.oracles_trav import restriction_admits, vm_parts
    for vm, part in vm_parts("x.vms." + cls.split(".vms.", 1)[1]).items() if ".vms." in cls else []:
        if not restriction_admits(worker["restrs"].get(vm, ""), part):
            return False
    return True


def oracle_c09(eager, eager2, lazy, case):
    findings, counters = [], collections.Counter()

    def add(mechanism, message):
        findings.append((mechanism, message))
    by_i = {n["i"]: n for n in eager["nodes"]}
    # (0) a key=value given for the whole run (a parameter the test configurations define themselves) reaches every parsed test
    wanted = (case.get("params") or {}).get("kill_vm_gracefully")
    if wanted is not None:
        for stage, snap in (("eager", eager), ("lazy", lazy)):
            for node in (snap or {}).get("nodes", []):
                if node["shared_root"]:
                    continue
                counters["override_checks"] += 1
                if node.get("marker") != wanted:
                    add("a parameter given for the whole run did not reach a parsed test",
                        f"[{stage}] {node['name'][-90:]}: kill_vm_gracefully={node.get('marker')!r}, given {wanted!r}")
                    break
    # (a) per-worker copies equivalent up to excluded tests
    canon = canonical(eager)
    workers = sorted(canon)
    all_classes = set().union(*[set(c) for c in canon.values()]) if canon else set()
    for worker in workers:
        for cls in all_classes:
            counters["copy_entries_compared"] += 1
            if cls in canon[worker]:
                others = [canon[w][cls] for w in workers if cls in canon[w]]
                if any(o != others[0] for o in others):
                    add("per-worker copies of a test have different dependencies", f"{cls}: {[(w, canon[w].get(cls)) for w in workers]}"[:900])
            else:
                plain = cls.replace("#source", "")
                if worker in eager["workers"] and worker_admits(eager["workers"][worker], plain, case.get("vm_strs", {})):
                    # absent although the worker's own restrictions admit its vm variants: is it excluded through a dependency?
                    counters["absent_although_admitted"] += 1
    # (b) bridging symmetric, complete, sharing the same four registers
    groups = collections.defaultdict(list)
    for node in eager["nodes"]:
        if not node["flat"] and not node["shared_root"] and not node["clone_source"]:
            groups[node["cls"]].append(node)
    for cls, members in groups.items():
        counters["bridge_groups_checked"] += 1
        if len({m["worker"] for m in members}) != len(members):
            add("shared setup duplicated for one worker", f"{cls}: workers {[m['worker'] for m in members]}")
        for member in members:
            expected = sorted(m["i"] for m in members if m["i"] != member["i"])
            if sorted(member["bridged"]) != expected:
                add("equivalent tests of different workers are not linked symmetrically and completely",
                    f"{cls} on {member['worker']}: linked to {[by_i[b]['worker'] for b in member['bridged'] if b in by_i]} expected "
                    f"{[m['worker'] for m in members if m['i'] != member['i']]}")
            if member["registers"] != members[0]["registers"]:
                add("linked tests do not share their visit bookkeeping", f"{cls}: {member['worker']} vs {members[0]['worker']}")
    # (d) determinism
    if eager2 is not None:
        counters["determinism_compared"] += 1
        if canonical(eager2) != canon or sorted(n["id"] for n in eager2["nodes"]) != sorted(n["id"] for n in eager["nodes"]):
            add("parsing the same input twice gives different graphs", f"{len(eager['nodes'])} vs {len(eager2['nodes'])} nodes")
    # (c) lazy expansion == eager parsing
    if lazy is not None:
        lazy_canon = canonical(lazy)
        counters["lazy_graphs_compared"] += 1
        for worker, classes in lazy_canon.items():
            for cls, parents in classes.items():
                counters["lazy_nodes_compared"] += 1
                reference = canon.get(worker, {}).get(cls)
                if reference is None:
                    # expanded lazily for a worker although the up-front parse has no such test for it
                    if any(cls in canon[w] for w in canon):
                        add("lazily expanded test is missing in the up-front graph of the same worker", f"{cls} on {worker}")
                    else:
                        add("lazily expanded test does not exist in the up-front graph", f"{cls} on {worker}")
                elif reference != parents:
                    add("lazily expanded test has different dependencies than when parsed up front", f"{cls} on {worker}: lazy {parents} eager {reference}"[:900])
        eager_leaves = {n["cls"] for n in eager["nodes"] if not n["flat"] and not n["shared_root"] and not n["clone_source"]
                        and not [1 for ref, _ in n["cleanup"] if ref in by_i and not by_i[ref]["flat"]]}
        lazy_all = {n["cls"] for n in lazy["nodes"] if not n["flat"] and not n["shared_root"] and not n["clone_source"]}
        missing = eager_leaves - lazy_all
        counters["leaf_classes_compared"] += len(eager_leaves)
        if missing:
            add("a selected compatible test was never expanded by the workers together", f"{sorted(missing)[:5]}")
    return findings, counters


# --------------------------------------------------------------------------------------------------------
# C07: dependencies exactly as declared (generated suites: the drawn DAG is the ground truth)
# --------------------------------------------------------------------------------------------------------

def expected_parents_generated(spec):
    """base test name -> {vm: (parent base names, required state)} from the drawn spec."""
    producers = {"install": ("original.install", "install")}
    for setup in spec["setups"]:
        producers[setup["name"]] = (f"internal.automated.{setup['name']}", setup["state"])
    expect = {}
    for setup in spec["setups"]:
        expect[f"internal.automated.{setup['name']}"] = {"*": [producers[setup["parent"]][0]]}
    for leaf in spec["leaves"]:
        expect[leaf["name"]] = {vm: [producers[p][0]] for vm, p in leaf["needs"].items()}
    for group in spec["groups"]:
        for variant in group["variants"]:
            expect[f"{group['name']}.{variant['name']}"] = {group["vm"]: [producers[group["base"]][0]]}
        expect[group["dependant"]["name"]] = {group["vm"]: [f"{group['name']}.{v['name']}" for v in group["variants"]]}
        if group["grand"]:
            expect["tgrand"] = {group["vm"]: [group["dependant"]["name"]]}
    expect["original.install"] = {"*": []}
    return expect


def base_of(cls):
    return cls.split(".vms.", 1)[0]


def oracle_c07(snap, case, stage):
    findings, counters = [], collections.Counter()
    spec = case.get("suite_spec")
    if spec is None:
        expect = SHIPPED_EXPECT
    else:
        expect = expected_parents_generated(spec)
    by_i = {n["i"]: n for n in snap["nodes"]}

    def add(mechanism, message):
        findings.append((mechanism, f"[{stage}] {message}"))
    per_worker = collections.defaultdict(list)
    for node in snap["nodes"]:
        if node["flat"] or node["shared_root"]:
            continue
        per_worker[(node["worker"], node["cls"], node["clone_source"])].append(node)
        base = base_of(node["cls"])
        # clones carry the producing branch in their name: <base>.<state suffix>
        declared = None
        clone_suffix = None
        for candidate in expect:
            if base == candidate or (base.startswith(candidate + ".") and candidate != "original.install"):
                if declared is None or len(candidate) > len(declared):
                    declared = candidate
        if declared is None:
            if base.startswith("internal.stateless.noop"):
                continue
            counters["nodes_without_declaration"] += 1
            add("a test that is not declared for this selection was parsed", f"{node['name'][-90:]}")
            continue
        counters["nodes_compared"] += 1
        expected = expect[declared]
        if spec is None and declared == "tutorial3.no_remote" and ".vm1.qemu_kvm_centos." not in node["cls"]:
            # the shipped config declares the connect dependency of vm1 only for its CentOS variant
            expected = dict(expected, vm1=["internal.automated.customize"])
        real = collections.defaultdict(list)
        for ref, objs in node["setup"]:
            parent = by_i.get(ref)
            if parent is None or parent["flat"] or parent["shared_root"]:
                continue
            for obj in objs:
                vm = obj.split("-", 1)[0]
                real[vm].append(base_of(parent["cls"]))
        is_clone = base != declared
        for vm in sorted(set(real) | {v for v in expected if v != "*"}):
            want = expected.get(vm, expected.get("*", []))
            if vm not in [o["long_suffix"] for o in node["objects"] if o["key"] == "vms"]:
                continue
            got = sorted(set(real.get(vm, [])))
            counters["dependency_pairs_compared"] += 1
            if node["clone_source"]:
                continue
            if len(want) > 1 or is_clone:
                # multi-producer dependency: this node must be one clone per producer (or descend from such a clone)
                counters["cloned_nodes_checked"] += 1
                if len(got) != 1 or not any(got[0] == w or got[0].startswith(w + ".") for w in want):
                    add("clone not attached to exactly one of the producing variants", f"{node['name'][-80:]}: parents {got} producers {want}")
                continue
            if got != sorted(want) and not (len(want) == 1 and len(got) == 1 and got[0].startswith(want[0] + ".")):
                kind = "missing" if set(want) - set(got) else "spurious"
                add(f"{kind} dependency compared with the configuration", f"{node['name'][-80:]} via {vm}: parents {got} declared {want}")
    for (worker, cls, source), members in per_worker.items():
        counters["per_worker_uniqueness_checked"] += 1
        if len(members) > 1:
            add("a test is duplicated for one worker", f"{cls} x{len(members)} on {worker}")
    # multi-producer: one clone per producer with branch-specific state names
    for group in (spec or {}).get("groups", []):
        dependant = group["dependant"]["name"]
        for worker in {n["worker"] for n in snap["nodes"] if n["worker"]}:
            clones = [n for n in snap["nodes"] if n["worker"] == worker and not n["clone_source"] and not n["flat"]
                      and (base_of(n["cls"]) == dependant or base_of(n["cls"]).startswith(dependant + "."))]
            sources = [n for n in snap["nodes"] if n["worker"] == worker and n["clone_source"] and base_of(n["cls"]) == dependant]
            if not clones and not sources:
                continue
            counters["multi_producer_dependants_checked"] += 1
            variants_present = [n for n in snap["nodes"] if n["worker"] == worker and not n["flat"] and any(
                base_of(n["cls"]) == f"{group['name']}.{v['name']}" for v in group["variants"])]
            expected_clones = len({base_of(n["cls"]) for n in variants_present})
            per_vmvariant = collections.Counter(n["cls"].split(".vms.", 1)[1] for n in clones)
            for source in sources:
                # a clone source without any runnable clone counts as zero clones
                per_vmvariant.setdefault(source["cls"].split(".vms.", 1)[1], 0)
            for vmvariant, number in per_vmvariant.items():
                if expected_clones and number != expected_clones:
                    add("dependant of several producers not cloned once per producer",
                        f"{dependant} on {worker} ({vmvariant}): {number} clones for {expected_clones} producers")
            for clone in clones:
                states = [s for s in clone["gets"].values() if s.startswith("mpst.")]
                if len(states) != 1:
                    add("clone without a branch-specific required state", f"{clone['name'][-80:]}: gets {clone['gets']}")
                elif group["dependant"]["sets"] and not any(s == group["dependant"]["sets"] + "." + states[0] for s in clone["sets"].values()):
                    add("clone without a branch-specific produced state", f"{clone['name'][-80:]}: sets {clone['sets']} for branch {states[0]}")
    return findings, counters


SHIPPED_EXPECT = {
    "original.unattended_install": {"*": []},
    "internal.automated.customize": {"*": ["original.unattended_install"]},
    "internal.automated.on_customize": {"*": ["internal.automated.customize"]},
    "internal.automated.connect": {"*": ["internal.automated.customize"]},
    "internal.automated.linux_virtuser": {"*": ["internal.automated.customize"]},
    "internal.automated.windows_virtuser": {"*": ["internal.automated.customize"]},
    "quicktest.tutorial1": {"vm1": ["internal.automated.on_customize"]},
    "quicktest.tutorial2.files": {"vm1": ["internal.automated.on_customize"]},
    "quicktest.tutorial2.names": {"vm1": ["internal.automated.on_customize"]},
    "tutorial3.no_remote": {"vm1": ["internal.automated.connect"], "vm2": ["internal.automated.customize"]},
    "tutorial3.remote": {"vm1": ["internal.automated.connect"], "vm2": ["internal.automated.customize"]},
    "tutorial_gui.client_noop": {"vm1": ["internal.automated.linux_virtuser"], "vm2": ["internal.automated.windows_virtuser"]},
    "tutorial_gui.client_clicked": {"vm1": ["internal.automated.linux_virtuser"], "vm2": ["internal.automated.windows_virtuser"]},
    "tutorial_get.explicit_noop": {"vm1": ["internal.automated.connect"], "vm2": ["tutorial_gui.client_noop"]},
    "tutorial_get.explicit_clicked": {"vm1": ["internal.automated.connect"], "vm2": ["tutorial_gui.client_clicked"]},
    "tutorial_get.implicit_both": {"vm1": ["internal.automated.connect"], "vm2": ["tutorial_gui.client_noop", "tutorial_gui.client_clicked"]},
    "tutorial_finale": {"vm1": ["internal.automated.connect"], "vm2": ["tutorial_get.implicit_both"]},
}


# --------------------------------------------------------------------------------------------------------
# child entry point
# --------------------------------------------------------------------------------------------------------

def parse_and_judge(case):
    """Parse eagerly (optionally twice) and lazily (through a traversal with trivial outcomes); apply the requested oracles."""
    from avocado_i2n import params_parser as param
    t0 = time.time()
    result = {"findings": {}, "counters": {}, "stats": {}}
    lazy_case = dict(case, eager=False, plan={"default_status": "PASS", "dur_mode": "const", "dur_const": 1.0}, store={"states": {}, "roots": {}})
    lazy_case.pop("interrupt_at", None)
    travsim.reset_ctx(lazy_case)
    scratch = None
    try:
        if case.get("suite_spec"):
            import tempfile
            scratch = tempfile.mkdtemp(prefix="verif-suite-")
            suitegen.write_suite(case["suite_spec"], scratch, param._devel_tp_folder)
        travsim.use_suite(scratch)
        travsim.install_seams()
        main_restrictions = param.all_restrictions()
        travsim.CTX.main_restrictions = main_restrictions
        eager_case = dict(case, eager=True)
        try:
            graph, params = travsim.build_graph(eager_case)
        except Exception as error:
            if type(error).__name__ == "EmptyCartesianProduct":
                result["empty"] = True
                return result
            result["setup_exception"] = {"type": type(error).__name__, "message": str(error)[:600], "trace": traceback.format_exc()[-2000:]}
            return result
        eager = snapshot(graph, main_restrictions)
        eager2 = None
        if case.get("twice"):
            graph2, _ = travsim.build_graph(eager_case)
            eager2 = snapshot(graph2, main_restrictions)
        lazy = None
        lazy_error = None
        if case.get("lazy", True):
            lazy_graph, lazy_params = travsim.build_graph(lazy_case)
            travsim.CTX.workers = travsim.worker_table(lazy_graph)
            runner = travsim.make_runner(lazy_params)
            outcome = travsim.run_traversal(lazy_graph, lazy_params, lazy_case, runner)
            if outcome["exception"] or outcome["worker_errors"]:
                lazy_error = outcome
            lazy = snapshot(lazy_graph, main_restrictions)
        oracles = case.get("oracles", ["C06", "C07", "C09"])
        if "C06" in oracles:
            findings, counters = oracle_c06(eager, "eager")
            if lazy is not None and lazy_error is None:
                more, more_counters = oracle_c06(lazy, "lazy")
                findings += more
                counters.update(more_counters)
            result["findings"]["C06"], result["counters"]["C06"] = dedupe(findings), dict(counters)
        if "C07" in oracles:
            findings, counters = oracle_c07(eager, case, "eager")
            if lazy is not None and lazy_error is None:
                more, more_counters = oracle_c07(lazy, case, "lazy")
                findings += more
                counters.update(more_counters)
            result["findings"]["C07"], result["counters"]["C07"] = dedupe(findings), dict(counters)
        if "C09" in oracles:
            findings, counters = oracle_c09(eager, eager2, lazy if lazy_error is None else None, case)
            result["findings"]["C09"], result["counters"]["C09"] = dedupe(findings), dict(counters)
        import hashlib
        import json
        result["stats"] = {"nodes": len(eager["nodes"]), "workers": len(eager["workers"]), "lazy_nodes": len(lazy["nodes"]) if lazy else None,
                           "lazy_error": (lazy_error or {}).get("worker_errors") or (lazy_error or {}).get("exception"),
                           "clones": len([n for n in eager["nodes"] if n["clone_source"]]),
                           "multi_object": len([n for n in eager["nodes"] if len([o for o in n["objects"] if o["key"] == "vms"]) > 1]),
                           "graph_hash": hashlib.sha1(json.dumps(canonical(eager), sort_keys=True).encode()).hexdigest()[:16]}
    finally:
        if scratch:
            import shutil
            shutil.rmtree(scratch, ignore_errors=True)
        result["wall"] = round(time.time() - t0, 2)
    return result


def dedupe(findings):
    seen, unique = set(), []
    for mechanism, message in findings:
        if mechanism not in seen:
            seen.add(mechanism)
            unique.append([mechanism, message[:1500]])
    return unique
