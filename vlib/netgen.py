"""Generator of vm network parameter sets (random IPv4 subnets, 1..4 vms x 1..3 nics) shared by C18 and C19."""

import ipaddress
import unittest.mock as mock

from virttest.utils_params import Params


def random_subnets(rng, number, min_prefix=8, max_prefix=30):
    """Draw pairwise non-overlapping IPv4 networks."""
    subnets = []
    attempts = 0
    while len(subnets) < number and attempts < 1000:
        attempts += 1
        prefix = rng.randint(min_prefix, max_prefix)
        first = rng.choice([10, 172, 192, rng.randint(1, 223)])
        if first == 127:
            continue
        base = (first << 24) | rng.getrandbits(24)
        network = ipaddress.ip_network((base >> (32 - prefix) << (32 - prefix), prefix))
        if any(network.overlaps(other) for other in subnets):
            continue
        subnets.append(network)
    return subnets


def draw_topology(rng, n_vms=None, static_in_range=False, min_prefix=8, max_prefix=30):
    """
    Return a JSON-able topology description.

    {"subnets": [{"net": "a.b.c.d/p", "range": [lo, hi]}...],
     "vms": {"vm1": {"nics": {"b1": {"subnet": i, "ip": "..."}}, "internet_nic": "b1", "lan_nic": "b2"}}}
    """
    n_vms = n_vms or rng.randint(1, 4)
    subnets = random_subnets(rng, rng.randint(1, 5), min_prefix, max_prefix)
    topo = {"subnets": [], "vms": {}}
    used = [set() for _ in subnets]
    for network in subnets:
        size = network.num_addresses
        # DHCP range of offsets inside the subnet, leaving at least one static slot where possible
        hi_max = size - 2
        if hi_max < 1:
            lo = hi = 1
        else:
            width = rng.randint(1, min(hi_max, rng.choice([1, 2, 3, 8, 100])))
            lo = rng.randint(1, max(1, hi_max - width + 1))
            hi = min(hi_max, lo + width - 1)
        entry = {"net": str(network), "range": [lo, hi]}
        if size >= 256 and rng.random() < 0.3:
            # no range configured: the code's default pool of host numbers 100-200
            entry = {"net": str(network), "range": [100, 200], "default_range": True}
        topo["subnets"].append(entry)
    for index in range(n_vms):
        vm_name = f"vm{index + 1}"
        nics = {}
        n_nics = rng.randint(1, 3)
        for nic_index in range(n_nics):
            nic = f"b{nic_index + 1}"
            # a vm does not get two nics in one subnet (keeps lan/internet roles meaningful)
            candidates = [i for i in range(len(subnets)) if i not in [n["subnet"] for n in nics.values()]]
            if not candidates:
                break
            choice = rng.choice(candidates)
            network, (lo, hi) = subnets[choice], topo["subnets"][choice]["range"]
            size = network.num_addresses
            top = max(2, size - 1)
            candidates_o = set(range(1, min(top, 40))) | set(range(max(1, top - 40), top)) \
                | set(range(max(1, lo - 3), min(top, hi + 4))) | {rng.randrange(1, top) for _ in range(20)}
            offsets = sorted(o for o in candidates_o if o not in used[choice]
                             and (static_in_range or not lo <= o <= hi))
            if not offsets:
                continue
            offset = rng.choice(offsets)
            used[choice].add(offset)
            nics[nic] = {"subnet": choice, "ip": str(network.network_address + offset), "offset": offset}
        if not nics:
            continue
        names = list(nics)
        topo["vms"][vm_name] = {"nics": nics, "internet_nic": names[0], "lan_nic": names[-1]}
    return topo


def topology_params(topo):
    params = Params()
    params["vms"] = " ".join(topo["vms"])
    params["mac"] = "00:00:00:00:00:00"
    for vm_name, vm in topo["vms"].items():
        params[f"nics_{vm_name}"] = " ".join(vm["nics"])
        params[f"internet_nic_{vm_name}"] = vm["internet_nic"]
        params[f"lan_nic_{vm_name}"] = vm["lan_nic"]
        for nic, spec in vm["nics"].items():
            subnet = topo["subnets"][spec["subnet"]]
            network = ipaddress.ip_network(subnet["net"])
            params[f"ip_{nic}_{vm_name}"] = spec["ip"]
            params[f"netmask_{nic}_{vm_name}"] = str(network.netmask)
            params[f"netdst_{nic}_{vm_name}"] = f"virbr{spec['subnet']}"
            if not subnet.get("default_range"):
                params[f"range_{nic}_{vm_name}"] = "%d-%d" % tuple(subnet["range"])
            if topo.get("with_gateway"):
                # what moving a subnet to another address needs: a gateway inside the subnet and a guest type whose nic can be reconfigured (only windows guests are supported)
                params[f"ip_provider_{nic}_{vm_name}"] = str(network.network_address + 1)
                params["os_type"] = "windows"
    return params


class FakeEnv:
    """Same seam as the selftests: env.get_vm / env.create_vm returning mock vms that carry params."""

    def __init__(self):
        self.vms = {}

    def get_vm(self, name):
        return self.vms.get(name)

    def create_vm(self, vm_type, target, vm_name, vm_params, bindir):
        vm = mock.MagicMock(name=vm_name)
        vm.name = vm_name
        vm.params = vm_params
        self.vms[vm_name] = vm
        return vm
