"""
Offline oracles over the event log of one simulated traversal (Engine T) for C01-C05, C08, C10.

Every oracle takes the digest built by `digest(record, phase)` and returns a list of
(mechanism, message, counters-dict) findings plus counters of what it actually evaluated.
Nothing here imports avocado_i2n: scopes, class keys, availability and decision tables are the harness's own.
"""

import collections
import re

OK = ("PASS", "WARN")
ALL_STATUSES = ["fail", "error", "pass", "warn", "skip", "cancel", "interrupted", "unknown"]
ACCEPTABLE = {"SKIP": True, "ERROR": False, "FAIL": False, "WARN": True, "PASS": True, "INTERRUPTED": False, "CANCEL": True}


class Digest:
    pass


def numeric(value, default):
    try:
        return float(value) if value not in (None, "") else default
    except (TypeError, ValueError):
        return default


def scope_of(worker, pool_scope, spawner=None):
    """Reuse scope of an executing worker: one worker, its swarm, or the whole run."""
    scopes = (pool_scope or "").split()
    spawner = spawner or worker["spawner"]
    if spawner == "lxc" and "swarm" not in scopes:
        return ("worker", worker["id"])
    if spawner == "remote" and "cluster" not in scopes:
        return ("swarm", worker["swarm"])
    return ("run",)


def digest(record, phase_index=-1):
    d = Digest()
    phase = record["phases"][phase_index]
    ph = len(record["phases"]) - 1 if phase_index == -1 else phase_index
    d.phase = phase
    d.workers = phase["workers"]
    d.nodes = phase["nodes"]
    d.events = [e for e in record["events"] if e["ph"] == ph]
    d.all_events = record["events"]
    d.params = phase.get("params", {})
    d.main_restrictions = record.get("main_restrictions", [])
    d.outcome = phase["outcome"]
    starts = {e["id"]: e for e in d.events if e["k"] == "exec_start"}
    ends = {e["id"]: e for e in d.events if e["k"] == "exec_end"}
    d.execs = []
    for exec_id, start in sorted(starts.items()):
        end = ends.get(exec_id)
        entry = dict(start)
        entry["t0"] = start["t"]
        entry["t1"] = end["t"] if end else None
        entry["s0"] = start["seq"]
        entry["s1"] = end["seq"] if end else None
        entry["status"] = end["status"] if end else None
        entry["reported"] = end["reported"] if end else None
        entry["missing"] = end["missing"] if end else []
        entry["is_prenode"] = start.get("type") == "shared_configure_install" and str(start.get("prefix", "")).startswith("0")
        entry["scope"] = scope_of(d.workers[start["w"]], start.get("pool_scope"), start.get("nets_spawner"))
        d.execs.append(entry)
    # two-step creation: a pre-node followed by the install node of the same worker counts as one execution
    d.units = []
    pending_pre = {}
    for entry in d.execs:
        if entry["is_prenode"]:
            if entry["w"] in pending_pre:
                # the previous configuration attempt of this worker was not followed by the install step: it failed
                d.units.append(_failed_creation(pending_pre.pop(entry["w"]), d))
            pending_pre[entry["w"]] = entry
            continue
        unit = dict(entry)
        pre = pending_pre.pop(entry["w"], None)
        if pre is not None and entry["cls"].startswith("original."):
            unit["t0"] = pre["t0"]
            unit["s0"] = pre["s0"]
            unit["pre"] = pre
        elif pre is not None:
            d.units.append(_failed_creation(pre, d))
        d.units.append(unit)
    for pre in pending_pre.values():
        d.units.append(_failed_creation(pre, d))
    d.units.sort(key=lambda u: (u["t0"], u["id"]))
    # precondition of the concurrency/budget clauses: no execution (a two-step creation counting as one) outlasts the
    # timeout budget after which the code deliberately lets a waiting worker re-enter
    d.overrun_classes = set()
    for unit in d.units:
        if unit["t1"] is None:
            continue
        budget = numeric(unit.get("test_timeout"), 3600) * max(1, numeric(unit.get("max_tries"), 1))
        if unit["t1"] - unit["t0"] > numeric(unit.get("test_timeout"), 3600):
            d.overrun_classes.add(unit["cls"])
    d.producers = collections.defaultdict(set)       # (obj, state) -> classes that set it
    d.node_by_name = {}
    for node in d.nodes:
        d.node_by_name[node["name"]] = node
        for obj, state, kind, unset_mode in node.get("sets", []):
            d.producers[(obj, state)].add(node["cls"])
    d.previous = record.get("case", {}).get("previous_results") or []
    d.eager = bool(record.get("case", {}).get("eager"))
    return d


def _failed_creation(pre, d):
    """A creation whose configuration step failed: the object's root class was attempted (and did not pass)."""
    unit = dict(pre)
    unit["creation_only_pre"] = True
    # the class of the object root this pre-node belongs to: same worker, object root node for the same vm variant
    suffix = pre["cls"].split(".vms.", 1)[1] if ".vms." in pre["cls"] else ""
    for node in d.nodes:
        if node.get("object_root") and node["worker"] == pre["w"] and node["cls"].endswith(suffix) and node["cls"].startswith("original."):
            unit["cls"] = node["cls"]
            break
    return unit


# ---------------------------------------------------------------------------------------------------------
# C01
# ---------------------------------------------------------------------------------------------------------

def oracle_c01(d):
    findings, counters = [], collections.Counter()
    for entry in d.execs:
        for requirement in entry["req"]:
            counters["required_states_checked"] += 1
            if requirement["found"]:
                counters["required_states_available"] += 1
                continue
            key = (requirement["obj"], requirement["state"])
            producers = d.producers.get(key, set())
            # (ii) externally provided state of a permanent object
            if requirement.get("permanent") and not producers:
                counters["excused_permanent"] += 1
                continue
            # (i) the producing test (or the creation step) was attempted in this run and did not pass
            attempts = [u for u in d.units if u["cls"] in producers and u["s0"] < entry["s0"] and u["id"] != entry["id"]]
            failed = [u for u in attempts if u["s1"] is not None and u["s1"] < entry["s0"] and u["status"] not in OK]
            if failed:
                counters["excused_by_failed_producer"] += 1
                continue
            holders = requirement.get("anywhere", [])
            listed_but_not_permitted = [loc for loc in requirement["locs"] if loc in holders]
            passed_by = sorted({u["w"] for u in attempts if u["status"] in OK and u["s1"] is not None and u["s1"] < entry["s0"]})
            in_flight = [u for u in attempts if u["s1"] is None or u["s1"] > entry["s0"]]
            removed_again = [e for e in d.events if e["k"] == "store" and e["op"] == "remove" and (e["obj"], e["state"]) == key
                             and e["seq"] < entry["s0"] and any(u["s1"] is not None and u["s1"] < e["seq"] for u in attempts if u["status"] in OK)]
            # only removals of copies this test could have used say something about it (its own pool, or a listed source whose
            # scope is enabled); another worker cleaning its own copy under per-worker reuse is that worker's business
            usable = [e for e in removed_again if e["loc"].startswith(entry["w"] + ":") or (
                e["loc"] in requirement["locs"] and location_scope_of(e["loc"], entry["w"], d) in requirement["pool_scope"])]
            if usable or (removed_again and not holders):
                # (a copy the test could have used was there and was cleaned away: that explains the miss, whatever other,
                # unusable copies exist elsewhere)
                removed_again = usable or removed_again
                parsing = "up-front parsing" if d.eager else f"lazy parsing, {expansion_note(d, entry['cls'], min(e['seq'] for e in removed_again), entry['w'])}"
                same = "the same worker's" if all(e["loc"].startswith(entry["w"] + ":") for e in removed_again) else "another worker's"
                mechanism = f"state produced in this run was removed from {same} pool by a cleanup before a pending dependant started ({parsing})"
            elif [h for h in holders if h not in requirement["locs"] and not h.startswith(entry["w"] + ":") and not h.startswith(":")
                  and location_scope_of(h, entry["w"], d) in requirement["pool_scope"]] and not [
                      u for u in attempts if u["scope"] == entry["scope"]]:
                # the residue finding seen within one reuse scope: a worker of this test's own scope holds the state without a
                # result (so it is not listed), nobody of the scope attempted the producer; copies listed from other scopes
                # (whose results are visible but whose pools may not be used) do not change that
                mechanism = ("required state present only in own pool(s) of other workers that have no result for the producer in this run; "
                             "producer never attempted")
            elif listed_but_not_permitted:
                mechanism = "state is in a listed source whose scope is not enabled in pool_scope"
            elif holders and not attempts:
                others = [h for h in holders if not h.startswith(entry["w"] + ":") and not h.startswith(":")]
                mechanism = ("required state present only in own pool(s) of other workers that have no result for the producer in this run; "
                             "producer never attempted") if others and len(others) == len(holders) else \
                    "required state exists somewhere but not in a listed and permitted location; producer never attempted"
            elif in_flight and holders and not passed_by and all(
                    not h.startswith(entry["w"] + ":") and not h.startswith(":") for h in holders):
                # same hole as above: the residue in another worker's own pool marked the producer finished for everybody while
                # the worker that does not have it is still producing it
                mechanism = ("required state present only in own pool(s) of other workers that have no result for the producer in this run; "
                             "producer still running on a worker without the state")
            elif in_flight:
                mechanism = "dependant started while its producer was still running"
            elif passed_by:
                mechanism = "producer passed in this run but its state is not in any listed and permitted location"
            elif not attempts:
                mechanism = "dependant started although its producer was never attempted and the state exists nowhere"
            else:
                mechanism = "required state unavailable at test start"
            findings.append((mechanism, f"worker {entry['w']} started {entry['cls']} at t={entry['t0']} needing {key[1]} of {key[0]}: "
                             f"listed {requirement['locs']} scope {requirement['pool_scope']} held by {holders} producers {sorted(producers)} "
                             f"attempts {[(u['w'], u['status'], u['t0'], u['t1']) for u in attempts]}"))
    return findings, counters


# ---------------------------------------------------------------------------------------------------------
# C02
# ---------------------------------------------------------------------------------------------------------

def oracle_c02(d, case):
    findings, counters = [], collections.Counter()
    outcome = d.outcome
    dry = str(case.get("params", {}).get("dry_run", "no")) == "yes"
    expected_error = case.get("expect_error")
    if outcome["exception"]:
        kind = outcome["exception"]["type"]
        if kind == "Deadlock":
            findings.append(("deadlock: every worker waits and no timer is pending", outcome["exception"]["message"]))
        elif kind == "IterationBudget":
            counters["inconclusive_iteration_budget"] += 1
        else:
            findings.append((f"traversal aborted with {kind}", outcome["exception"]["message"] + outcome["exception"].get("trace", "")[-800:]))
    budget_hits = [w for w, e in outcome["worker_errors"].items() if e["type"] == "IterationBudget"]
    if budget_hits:
        # runaway iteration: a livelock if no test is running (nothing can change any more), otherwise just a big workload
        in_flight = [e for e in d.execs if e["t1"] is None]
        recent_execs = [e for e in d.execs if e["t0"] >= outcome["vtime"] - 1e-9]
        if not in_flight:
            findings.append(("livelock: workers keep iterating although no test is running",
                             f"workers {budget_hits} exceeded the iteration budget at t={outcome['vtime']} with {len(d.execs)} executions so far"))
        else:
            counters["inconclusive_iteration_budget"] += 1
    for worker, error in outcome["worker_errors"].items():
        if error["type"] == "IterationBudget":
            continue
        if expected_error and error["type"] in expected_error:
            counters["expected_rejections"] += 1
            continue
        if error["type"] == "CancelledError":
            continue
        findings.append((f"traversal error {error['type']}: {classify_error(error['message'])}",
                         f"worker {worker}: {error['message']}\n{error['trace'][-1200:]}"))
    counters["traversals_completed"] += 0 if (outcome["exception"] or outcome["worker_errors"]) else 1
    if outcome["exception"] or outcome["worker_errors"]:
        return findings, counters
    executed = collections.Counter(e["cls"] for e in d.execs if not e["is_prenode"])
    if dry:
        counters["dry_runs_checked"] += 1
        if d.execs:
            findings.append(("dry run executed tests", f"{len(d.execs)} executions"))
        if [e for e in d.events if e["k"] == "door"]:
            findings.append(("dry run issued state requests", str([e["action"] for e in d.events if e["k"] == "door"][:5])))
        if d.phase["store_before"] != d.phase["store_after"]:
            findings.append(("dry run changed states", ""))
        return findings, counters
    # a selected test that itself produces states found present when first examined is reused, not executed (see C03)
    reused = set()
    for event in d.events:
        if event["k"] == "door" and event["action"] == "check" and event["outcome"] == "true" and event.get("node") in d.node_by_name:
            reused.add(d.node_by_name[event["node"]]["cls"])
    flat = [n for n in d.nodes if n["flat"] and not n["shared_root"]]
    composites = [n for n in d.nodes if not n["flat"] and not n["clone_source"] and not n["shared_root"]]
    for node in flat:
        counters["selected_tests_audited"] += 1
        children = [c for c in composites if c["cls"] == node["cls"] or c["cls"].startswith(node["cls"] + ".vms.")]
        compatible = len(children) > 0
        if not compatible:
            counters["selected_tests_incompatible_with_all_workers"] += 1
            continue
        if any(c["cls"] in reused for c in children):
            counters["selected_tests_reused_from_present_states"] += 1
            continue
        if not any(executed[c["cls"]] for c in children):
            findings.append(("selected test compatible with a worker was never executed",
                             f"{node['cls']}: composite copies {[(c['worker'], c['results']) for c in children]}"))
    for node in composites:
        if "UNKNOWN" in node["results"]:
            findings.append(("pending (UNKNOWN) status left recorded for an executed test",
                             f"{node['cls']} on {node['worker']}: results {node['results']}"))
        if executed[node["cls"]] and not any(c["results"] for c in composites if c["cls"] == node["cls"]):
            findings.append(("executed test has no recorded result", node["cls"]))
    # every composite class that is a selected leaf must have run at least once
    return findings, counters


def classify_error(message):
    for needle in ("Discontinuous path", "without remaining", "Unfinished traverse path", "should not try to run",
                   "should not try to clean", "should not consider rerunning", "Could not pull setup location",
                   "Cannot identify picked node", "must be a valid test status", "max_tries cannot be less"):
        if needle in message:
            return needle
    return re.sub(r"[0-9]+", "N", message)[:80]


# ---------------------------------------------------------------------------------------------------------
# C03
# ---------------------------------------------------------------------------------------------------------

def budget_of(entry, replay):
    return max(1, int(numeric(entry.get("max_tries"), 2 if replay else 1)))


def oracle_c03(d, case):
    findings, counters = [], collections.Counter()
    replay = bool(case.get("params", {}).get("replay"))
    groups = collections.defaultdict(list)
    stateful = {}
    for unit in d.units:
        sets_states = bool(unit.get("sets"))
        stateful[unit["cls"]] = sets_states
        # leaves (no produced state) are shared by the whole run whatever the scope
        scope = unit["scope"] if sets_states else ("run",)
        groups[(unit["cls"], scope)].append(unit)
        if not unit.get("has_objects", True):
            findings.append(("a flat (not yet expanded) test was executed", unit["cls"]))
        if unit.get("is_clone_source"):
            findings.append(("a clone source was executed", unit["cls"]))
    for (cls, scope), units in groups.items():
        counters["class_scope_groups_counted"] += 1
        if len({u["w"] for u in units}) > 1:
            counters["groups_with_several_workers"] += 1
        budget = max(budget_of(u, replay) for u in units)
        if cls in d.overrun_classes:
            counters["groups_skipped_for_overrun"] += 1
            continue
        if len(units) > budget:
            findings.append((f"test executed more often than its retry budget in one {scope[0]} scope",
                             f"{cls} scope {scope}: {len(units)} executions {[(u['w'], u['t0'], u['status']) for u in units]} budget {budget}"))
    # presence at first examination => no execution in that scope
    first_check = {}
    previous_names = [r.get("name", "") for r in (case.get("previous_results") or [])]
    for event in d.events:
        if event["k"] != "door" or event["action"] != "check" or event.get("origin") != "traverse":
            continue
        node = d.node_by_name.get(event.get("node"))
        if node is None:
            continue
        worker = d.workers[event["w"]]
        scope = scope_of(worker, node.get("pool_scope"), node.get("spawner"))
        key = (node["cls"], scope)
        if key in first_check:
            continue
        first_check[key] = event
        counters["first_examinations"] += 1
        if event["outcome"] != "true":
            continue
        counters["first_examinations_with_all_states_present"] += 1
        if any(re.search(r"(^|\.)" + re.escape(node["cls"]) + r"($|\.)", name) for name in previous_names):
            continue
        later = [u for u in d.units if u["cls"] == node["cls"] and u["scope"] == scope and u["s0"] > event["seq"]]
        if later:
            findings.append(("setup test executed although all its states were present at first examination",
                             f"{node['cls']} examined by {event['w']} at t={event['t']} (present) but executed {[(u['w'], u['t0']) for u in later]}"))
    return findings, counters


# ---------------------------------------------------------------------------------------------------------
# C04
# ---------------------------------------------------------------------------------------------------------

def oracle_c04(d, case):
    findings, counters = [], collections.Counter()
    overrun = bool(d.overrun_classes)
    replay = bool(case.get("params", {}).get("replay"))
    groups = collections.defaultdict(list)
    for unit in d.units:
        if unit["t1"] is None:
            continue
        scope = unit["scope"]
        groups[(unit["cls"], scope)].append(unit)
    if overrun:
        counters["runs_with_overrun_skipped_for_overlap"] += 1
    for (cls, scope), units in groups.items():
        # the configured limit: the traversal itself raises the parameter on a node when it gives up waiting (its escape
        # hatch for hanging workers), so the value seen at execution time is not the one the user set
        configured = case.get("params", {}).get("max_concurrent_tries")
        if configured is not None:
            limit = max(1, int(numeric(configured, 1)))
        else:
            limit = max(max(1, int(budget_of(u, replay))) for u in units)
        points = []
        for unit in units:
            points.append((unit["s0"], 1, unit))
            points.append((unit["s1"], -1, unit))
        # event sequence numbers order simultaneous ends and starts exactly as they happened
        points.sort(key=lambda p: (p[0], p[1]))
        current, worst = 0, 0
        for _, delta, _ in points:
            current += delta
            worst = max(worst, current)
        counters["interval_groups_swept"] += 1
        if len({u["w"] for u in units}) > 1:
            counters["interval_groups_with_several_workers"] += 1
        if worst > limit and not overrun:
            findings.append((f"test executed by more workers of one {scope[0]} scope at the same time than max_concurrent_tries",
                             f"{cls} scope {scope}: {worst} concurrent executions (limit {limit}): "
                             f"{[(u['w'], u['t0'], u['t1']) for u in units]}"))
    # back-off: bounded sleeps of the documented length
    allowed = set()
    for node in d.nodes:
        if node["flat"]:
            continue
        timeout = numeric(node.get("test_timeout"), 3600)
        tries = numeric(node.get("max_tries"), 1)
        allowed.add(round(max(timeout * tries / 1000, 0.1), 2))
    # looking for other work: while a test that later ran with everything it needed was available and not yet started,
    # a compatible worker must not keep bouncing off occupied tests
    idle = other_work_windows(d)
    counters["max_consecutive_bounces_while_other_work_waited"] = max([n for n, _ in idle] + [0])
    counters["bounce_windows_with_other_work"] += len(idle)
    for number, description in idle:
        # bounded progress: a few bounces may pass before the worker's next pick reaches the waiting test
        if number > IDLE_BOUNCE_BOUND and not overrun:
            findings.append(("worker kept bouncing off an occupied test instead of taking other work that was ready", description))
            break
    for event in d.events:
        if event["k"] == "sleep":
            counters["bounces_observed"] += event["n"]
            if event["delay"] not in allowed and event["delay"] != 30:
                findings.append(("back-off period differs from the documented one",
                                 f"worker {event['task']} slept {event['delay']} (allowed {sorted(allowed)})"))
    return findings, counters


IDLE_BOUNCE_BOUND = 10


def expansion_note(d, cls, seq, victim):
    """Under lazy parsing: who had expanded the selected test this class comes from before event number seq?"""
    from vlib.travsim import class_key
    base, _, objects = cls.partition(".vms.")
    refused, others, own = False, False, False
    for event in d.events:
        if event["seq"] >= seq:
            break
        if event["k"] != "expand":
            continue
        if not event["children"]:
            # a worker whose restrictions exclude the test tried to expand it and got nothing
            flat_base = class_key(event["flat"], d.main_restrictions)
            if base == flat_base or base.startswith(flat_base + "."):
                refused = True
        for child in event["children"]:
            child_cls = class_key(child, d.main_restrictions)
            child_base = child_cls.partition(".vms.")[0]
            # clones carry the producing variant after the name of the test they were cloned from; the code's rule is per
            # selected test, whatever object variants the expanding worker supports
            if base == child_base or base.startswith(child_base + "."):
                if event["net"] == victim:
                    own = True
                else:
                    others = True
    if own:
        return "dependant already expanded by the worker that needs it"
    if others:
        return "dependant expanded by other workers only"
    if refused:
        return "dependant expanded by nobody yet but found incompatible with some worker"
    return "dependant not yet expanded by any worker"


def other_work_windows(d):
    """(consecutive bounces, description) of back-off windows of a worker that lie entirely within a period in which a test
    the worker is compatible with was ready (its producers had finished) and not yet started by anybody."""
    windows = []
    ends = collections.defaultdict(list)
    for unit in d.units:
        # a producer is done with when its last try has ended
        for entry in unit.get("sets", []):
            ends[(entry["obj"], entry["state"])].append(unit["t1"] if unit["t1"] is not None else float("inf"))
    first_start = {}
    for unit in d.units:
        first_start.setdefault(unit["cls"], unit)
    compatible = collections.defaultdict(set)
    for node in d.nodes:
        if not node["flat"] and not node["clone_source"]:
            compatible[node["cls"]].add(node["worker"])
    ready = {}
    for cls, unit in first_start.items():
        if unit.get("sets") or unit["is_prenode"] or not all(r["found"] for r in unit["req"]) or unit["scope"] != ("run",):
            continue
        produced = [max(ends[(r["obj"], r["state"])]) for r in unit["req"] if ends.get((r["obj"], r["state"]))]
        if len(produced) < len(unit["req"]) or not produced:
            # readiness is only known for tests all of whose required states were produced in this run
            continue
        ready[cls] = (max(produced), unit["t0"])
    for event in d.events:
        if event["k"] != "sleep" or event["delay"] == 30:
            continue
        begin, end = event["t"], event["t_last"] + event["delay"]
        for cls, (since, started) in ready.items():
            if since <= begin and end <= started and event["task"] in compatible[cls]:
                windows.append((event["n"], f"{event['task']} bounced {event['n']} times in [{begin}, {end}] while {cls} waited since {since} until {started}"))
                break
    return windows


# ---------------------------------------------------------------------------------------------------------
# C05
# ---------------------------------------------------------------------------------------------------------

def oracle_c05(d, case):
    findings, counters = [], collections.Counter()
    pool_filter = case.get("params", {}).get("pool_filter", "reuse")
    removable = {}
    for node in d.nodes:
        for obj, state, kind, unset_mode in node.get("sets", []):
            removable.setdefault((obj, state), set()).add((unset_mode or "ri")[0] == "f")
    for event in d.events:
        if event["k"] == "door" and event["action"] == "unset":
            for obj in event["objs"]:
                counters["unset_requests_audited"] += 1
                key = (obj["obj"], obj["state"])
                if key in removable and True not in removable[key]:
                    findings.append(("unset request for a state that is not marked for removal",
                                     f"{event['w']} asked to unset {key} (node {event.get('node')})"))
        if event["k"] == "door" and event.get("origin") == "reverse" and event["action"] == "get" and pool_filter in ("reuse", "block"):
            findings.append(("state copied while backing out although pool_filter forbids it", f"{event['w']} {event.get('node')}"))
        if event["k"] == "store" and event["op"] == "remove":
            counters["removals_audited"] += 1
            key = (event["obj"], event["state"])
            if key in removable and True not in removable[key]:
                findings.append(("a state not marked for removal was removed", f"{key} at {event['loc']} t={event['t']}"))
            # dependants that use THIS copy: tests of the worker owning the location, or tests that are told to fetch from
            # it (the location is among their sources and its scope is enabled), running now or starting later
            owner = event["loc"].split(":", 1)[0]
            relevant, shared_running = [], []
            for e in d.execs:
                for r in e["req"]:
                    if (r["obj"], r["state"]) != key:
                        continue
                    uses_copy = e["w"] == owner or (event["loc"] in r["locs"] and location_scope_of(event["loc"], e["w"], d) in r["pool_scope"])
                    running = e["s0"] < event["seq"] and (e["s1"] is None or e["s1"] > event["seq"])
                    pending = e["s0"] > event["seq"]
                    if running and e["w"] != owner and not uses_copy:
                        # a test of another worker fetched its copy when it started: it is done with this one
                        counters["removals_during_foreign_run_after_fetch"] += 1
                        if owner in d.workers and e["scope"][0] != "worker" and \
                                scope_of(d.workers[owner], " ".join(r["pool_scope"]), d.workers[owner]["spawner"]) == e["scope"]:
                            # ... but both workers share this state (one reuse scope): the state is being removed while a
                            # dependant on a worker that took part in using it is still running
                            shared_running.append(e)
                        continue
                    if uses_copy and (running or pending):
                        relevant.append((e, "running" if running else "pending"))
            if shared_running and not relevant:
                counters["removals_while_dependant_of_same_scope_runs_elsewhere"] += 1
                e = shared_running[0]
                parsing = "up-front parsing" if case.get("eager") else "lazy parsing"
                findings.append((f"state removed by one worker while a dependant on another worker of the same reuse scope was running ({parsing})",
                                 f"{key} removed at {event['loc']} t={event['t']} by {event.get('w')} while {e['cls']} runs on {e['w']} "
                                 f"({e['t0']}..{e['t1']}), scope {e['scope']}"))
            if relevant:
                e, when = relevant[0]
                same_worker = e["w"] == owner
                same_swarm = d.workers[e["w"]]["swarm"] == d.workers.get(owner, {}).get("swarm")
                relation = "on the same worker" if same_worker else ("of the same swarm" if same_swarm else "of another swarm")
                parsing = "up-front parsing" if case.get("eager") else \
                    ("lazy parsing" if when == "running" else f"lazy parsing, {expansion_note(d, e['cls'], event['seq'], e['w'])}")
                mechanism = f"state removed while a dependant {relation} was {when} ({parsing})"
                findings.append((mechanism, f"{key} removed at {event['loc']} t={event['t']} by {event.get('w')}; dependants "
                                 f"{[(x['w'], x['cls'], x['t0'], x['t1'], w) for x, w in relevant]}"))
            else:
                counters["removals_after_all_dependants"] += 1
        if event["k"] == "store" and event.get("by") in ("door", "transport") and event["op"] == "add":
            door = [e for e in d.events if e["k"] == "door" and e["t"] == event["t"] and e.get("origin") == "reverse"]
            if door and pool_filter in ("reuse", "block"):
                findings.append(("state altered while backing out although pool_filter forbids it", f"{event}"))
    counters["graphs_with_removable_states"] += 1 if any(True in v for v in removable.values()) else 0
    return findings, counters


# ---------------------------------------------------------------------------------------------------------
# C08
# ---------------------------------------------------------------------------------------------------------

def restriction_admits(restr_text, name_part):
    """Harness's own evaluation of 'only a, b' / 'no a, b' lines against the dotted variant list of one vm."""
    variants = name_part.split(".")
    for line in restr_text.splitlines():
        line = line.strip()
        if not line:
            continue
        kind, rest = line.split(" ", 1)
        alternatives = [alt.strip() for alt in rest.split(",")]

        def matches(alternative):
            parts = alternative.split(".")
            return any(variants[i:i + len(parts)] == parts for i in range(len(variants) - len(parts) + 1))
        hit = any(matches(alt) for alt in alternatives)
        if kind == "only" and not hit:
            return False
        if kind == "no" and hit:
            return False
    return True


def vm_parts(name):
    """Split a composite node name into per-vm variant lists: {'vm1': 'vm1.qemu_kvm_centos....'}"""
    parts = {}
    if ".vms." not in name:
        return parts
    rest = name.split(".vms.", 1)[1]
    for chunk in re.split(r"\.nets\.[^.]+\.[^.]+(?:\.|$)", rest):
        if chunk:
            parts[chunk.split(".")[0]] = chunk
    return parts


def location_scope_of(location, worker_id, d):
    from vlib.travsim import location_scope
    return location_scope(location, d.workers[worker_id], d.workers)


def oracle_c08(d, case):
    from vlib.travsim import worker_of_name
    findings, counters = [], collections.Counter()
    previous = case.get("previous_results") or []
    for entry in d.execs:
        worker = d.workers[entry["w"]]
        counters["executions_audited"] += 1
        if worker_of_name(entry["name"]) != entry["w"] or entry.get("task") not in (None, entry["w"]):
            findings.append(("test executed by a worker it was not parsed for",
                             f"{entry['cls']} named for {worker_of_name(entry['name'])} executed by {entry['w']} (task {entry.get('task')})"))
        if entry.get("session_w") is not None:
            counters["spawner_connections_audited"] += 1
            if entry["session_w"] != entry["w"]:
                findings.append(("test handed to the spawner over another worker's connection",
                                 f"{entry['cls']} of {entry['w']} would be spawned through the session of {entry['session_w']}"))
        for key, column in (("nets_host", "host"), ("nets_gateway", "gateway"), ("nets_spawner", "spawner"),
                            ("nets_shell_host", "shell_host"), ("nets_shell_port", "shell_port")):
            if str(entry.get(key)) != str(worker[column]):
                findings.append(("test executed with another worker's connection parameters",
                                 f"{entry['cls']} on {entry['w']}: {key}={entry.get(key)} worker has {worker[column]}"))
        for vm, part in vm_parts(entry["name"]).items():
            restriction = worker["restrs"].get(vm, "")
            worker_own = "".join(line + "\n" for line in restriction.splitlines() if line.strip() not in
                                 [l.strip() for l in (case.get("vm_strs", {}).get(vm, "")).splitlines()])
            counters["restriction_checks"] += 1
            if not restriction_admits(restriction, part):
                findings.append(("test executed on a worker whose object restrictions exclude it",
                                 f"{entry['cls']} on {entry['w']}: {vm} restriction {restriction!r}"))
        for requirement in entry["req"]:
            key = (requirement["obj"], requirement["state"])
            producers = d.producers.get(key, set())
            if not producers:
                continue
            counters["producer_edges_audited"] += 1
            passed = set()
            for unit in d.units:
                if unit["cls"] in producers and unit["status"] in OK and unit["s1"] is not None and unit["s1"] < entry["s0"]:
                    passed.add(unit["w"])
            for result in previous:
                if result.get("status") in OK and any(cls_matches(result.get("name", ""), p) for p in producers):
                    for wid in d.workers:
                        if wid in result.get("name", ""):
                            passed.add(wid)
            listed = [loc for loc in requirement["locs"] if not loc.startswith(":")]
            listed_workers = {loc.split(":", 1)[0] for loc in listed}
            if passed - {entry["w"]}:
                counters["edges_with_foreign_producer"] += 1
            if not any(loc.startswith(":") for loc in requirement["locs"]):
                findings.append(("shared pool not named as a source", f"{entry['cls']} on {entry['w']}: {requirement['locs']}"))
            if listed_workers - passed:
                findings.append(("a worker that did not produce the state is named as a source",
                                 f"{entry['cls']} on {entry['w']} for {key}: listed {sorted(listed_workers)} produced (PASS) by {sorted(passed)}"))
            if passed - listed_workers:
                findings.append(("a worker that produced the state is not named as a source",
                                 f"{entry['cls']} on {entry['w']} for {key}: listed {sorted(listed_workers)} produced (PASS) by {sorted(passed)}"))
            for wid in listed_workers & set(d.workers):
                for pkey, value in d.workers[wid]["params"].items():
                    got = entry["source_params"].get(f"{pkey}_{wid}")
                    if got != value:
                        findings.append(("access parameters of a named source worker missing or wrong",
                                         f"{entry['cls']} on {entry['w']}: {pkey}_{wid}={got!r} expected {value!r}"))
                        break
    # state requests travel over the connection of the worker that makes them
    for event in d.events:
        if event["k"] == "door" and event.get("task"):
            counters["state_requests_audited"] += 1
            if event["w"] != event["task"]:
                findings.append(("state request sent over another worker's connection",
                                 f"{event['action']} for {event.get('node')} by {event['task']} went through the session of {event['w']}"))
    return findings, counters


def cls_matches(name, cls):
    from vlib.travsim import NET_PART
    return NET_PART.sub("", name).endswith(cls)


# ---------------------------------------------------------------------------------------------------------
# C10
# ---------------------------------------------------------------------------------------------------------

def oracle_c10(d, case):
    findings, counters = [], collections.Counter()
    params = case.get("params", {})
    replay = bool(params.get("replay"))
    previous = case.get("previous_results") or []
    if replay:
        rerun = [s.strip() for s in str(params.get("rerun_status", "fail,error,warn")).replace(",", " ").split()]
    else:
        rerun = [s for s in str(params.get("rerun_status", "")).replace(",", " ").split()] or list(ALL_STATUSES)
    stop = [s for s in str(params.get("stop_status", "")).replace(",", " ").split()]
    if case.get("expect_error"):
        counters["invalid_settings_cases"] += 1
        rejected = [e for e in d.outcome["worker_errors"].values() if e["type"] in case["expect_error"]]
        if rejected:
            counters["invalid_settings_rejected"] += 1
        elif not d.execs:
            counters["invalid_settings_never_consulted"] += 1
        else:
            findings.append(("invalid retry settings were not rejected with an error",
                             f"{ {k: v for k, v in params.items() if k in ('max_tries', 'rerun_status', 'stop_status')} }: "
                             f"{len(d.execs)} executions, errors {d.outcome['worker_errors']}"))
        return findings, counters
    uids = collections.Counter((e["uid"], e["name"]) for e in d.execs)
    for (uid, name), number in uids.items():
        counters["uids_checked"] += 1
        if number > 1:
            findings.append(("repeated executions carry the same identifier", f"{name} uid {uid} used {number} times"))
    for unit in d.units:
        if unit.get("creation_only_pre"):
            continue
        stateful = bool(unit.get("sets"))
        scope = unit["scope"] if stateful else ("run",)
        history = []
        for other in d.units:
            if other["id"] == unit["id"] or other["cls"] != unit["cls"]:
                continue
            other_scope = other["scope"] if stateful else ("run",)
            if other_scope != scope:
                continue
            if other["s1"] is not None and other["s1"] < unit["s0"]:
                history.append(other["status"].lower())
            elif other["s0"] < unit["s0"]:
                history.append("unknown")
        for result in previous:
            if cls_matches(result.get("name", ""), unit["cls"]) and in_scope(result.get("name", ""), scope, d):
                history.append(result.get("status", "").lower())
        max_tries = int(numeric(unit.get("max_tries"), 2 if replay else 1))
        counters["decisions_evaluated"] += 1
        if history:
            counters["decisions_with_history"] += 1
            if unit["cls"] in d.overrun_classes:
                counters["decisions_skipped_for_overrun"] += 1
                continue
            completed = [h for h in history if h != "unknown"]
            allowed = len(history) < max_tries and set(completed) <= set(rerun) and not (set(completed) & set(stop))
            if not allowed:
                # a setup test whose state was missing at first examination runs whatever the previous results say
                if stateful and not [h for h in history if h != "unknown"] == history and False:
                    pass
                missing_state_rerun = stateful and all(r.get("status") for r in previous) and any(
                    cls_matches(r.get("name", ""), unit["cls"]) for r in previous) and len(history) == len(
                    [r for r in previous if cls_matches(r.get("name", ""), unit["cls"]) and in_scope(r.get("name", ""), scope, d)])
                if not missing_state_rerun and stateful and previous:
                    # replay: executions of this run may be in flight too; what matters is that a produced state is missing
                    # where the examining worker looks for it (its own and the shared pool, as in C03)
                    missing_state_rerun = any(not present_anywhere(d, (entry["obj"], entry["state"]), unit["s0"], unit["w"])
                                              for entry in unit.get("sets", []))
                if missing_state_rerun:
                    counters["replayed_setup_rerun_for_missing_state"] += 1
                    continue
                findings.append(("test executed again although the retry rules forbid it",
                                 f"{unit['cls']} on {unit['w']} at t={unit['t0']}: history {history} max_tries {max_tries} rerun {rerun} stop {stop}"))
    # converse at quiescence
    if not d.outcome["exception"] and not d.outcome["worker_errors"]:
        groups = collections.defaultdict(list)
        for unit in d.units:
            stateful = bool(unit.get("sets")) or unit.get("creation_only_pre")
            groups[(unit["cls"], unit["scope"] if stateful else ("run",))].append(unit)
        for (cls, scope), units in groups.items():
            statuses = [u["status"].lower() for u in units if u["status"]]
            # results of a replayed job count as tries already made
            statuses += [r.get("status", "").lower() for r in previous if cls_matches(r.get("name", ""), cls) and in_scope(r.get("name", ""), scope, d)]
            max_tries = max(int(numeric(u.get("max_tries"), 2 if replay else 1)) for u in units)
            counters["quiescence_groups_checked"] += 1
            reported = all(u["reported"] for u in units)
            if reported and len(statuses) < max_tries and set(statuses) <= set(rerun) and not (set(statuses) & set(stop)) and max_tries > 1:
                findings.append(("retries were due but the test was not executed again",
                                 f"{cls} scope {scope}: statuses {statuses} max_tries {max_tries} rerun {rerun} stop {stop}"))
    # replay: a selected test without an acceptable previous result is executed again, one with an acceptable result is not
    if replay and not d.outcome["exception"] and not d.outcome["worker_errors"]:
        executed_classes = {u["cls"] for u in d.units}
        audited = set()
        for node in d.nodes:
            if node["flat"] or node["clone_source"] or node["shared_root"] or node.get("object_root") or node.get("sets"):
                continue
            cls = node["cls"]
            if cls in audited or cls.startswith("internal.") or cls.startswith("original."):
                continue
            audited.add(cls)
            history = [r.get("status", "").lower() for r in previous if cls_matches(r.get("name", ""), cls)]
            if not history:
                continue
            counters["replayed_classes_audited"] += 1
            max_tries = int(numeric(node.get("max_tries"), 2))
            due = len(history) < max_tries and set(history) <= set(rerun) and not (set(history) & set(stop))
            acceptable = any(ACCEPTABLE.get(h.upper(), False) for h in history)
            if cls in executed_classes:
                counters["replayed_classes_executed_again"] += 1
                continue
            counters["replayed_classes_not_executed_again"] += 1
            if due:
                findings.append(("replayed test with tries left and only rerun-worthy previous results was not executed again",
                                 f"{cls}: previous {history} max_tries {max_tries} rerun {rerun} stop {stop}"))
            elif not acceptable:
                # e.g. a previously INTERRUPTED test under the default replay rerun set (fail, error, warn): the exact retry rule
                # (first sentence of the property) says it is not run again, the replay sentence says it is; not judged (DESIGN 9.5)
                counters["replayed_unacceptable_outside_rerun_set_not_judged"] += 1
    # each execution reads its own result
    by_name = collections.defaultdict(list)
    for entry in d.execs:
        # the configuration step of a creation runs on a throw-away node that is not part of the graph
        if entry["status"] and entry["reported"] and not entry["is_prenode"]:
            by_name[entry["name"]].append(entry["status"])
    recorded_by_name = collections.defaultdict(list)
    for node in d.nodes:
        if node["flat"] or node["clone_source"]:
            continue
        recorded_by_name[node["name"]] += [s for s, n, old in zip(node["results"], node.get("result_names", []),
                                                                 node.get("result_previous") or [False] * len(node["results"]))
                                           if n == node["name"] and not old]
    for name, own in by_name.items():
        recorded = recorded_by_name.get(name, [])
        recorded_now = [s for s in recorded if s != "UNKNOWN"]
        counters["result_sequences_compared"] += 1
        if sorted(recorded_now) != sorted(own):
            findings.append(("a repeated execution did not read its own result",
                             f"{name[-90:]}: reported {own} recorded {recorded_now}"))
    # verdict
    job = d.phase["job_results"]
    names = {r["name"] for r in job}
    expected_ok = all(any(ACCEPTABLE.get(r["status"], False) for r in job if r["name"] == name) for name in names)
    counters["verdicts_compared"] += 1
    if d.phase["all_results_ok"] is not expected_ok:
        findings.append(("run verdict differs from 'every executed test has an acceptable result'",
                         f"all_results_ok={d.phase['all_results_ok']} expected {expected_ok}: "
                         f"{[(r['name'][-40:], r['status']) for r in job if not ACCEPTABLE.get(r['status'], False)][:5]}"))
    # executed tests without any reported result cannot make the run successful
    silent = [e for e in d.execs if e["t1"] is not None and not e["reported"]]
    if silent and d.phase["all_results_ok"] is True and not (d.outcome["exception"] or d.outcome["worker_errors"]):
        names_without = [e["name"] for e in silent if not any(ACCEPTABLE.get(r["status"], False) for r in job if r["name"] == e["name"])]
        if names_without:
            findings.append(("run reported successful although an executed test has no acceptable result (result never reported)",
                             f"{[n[-60:] for n in names_without[:3]]}"))
    return findings, counters


def present_anywhere(d, key, seq, worker=None):
    """Whether a state was in the worker's own or the shared pool (any pool without a worker) just before event number seq."""
    locations = {loc for loc, entries in d.phase["store_before"]["states"].items() if list(key) in [list(e) for e in entries]}
    for event in d.events:
        if event["seq"] >= seq:
            break
        if event["k"] == "store" and (event.get("obj"), event.get("state")) == tuple(key):
            if event["op"] == "add":
                locations.add(event["loc"])
            elif event["op"] == "remove":
                locations.discard(event["loc"])
    if worker is not None:
        locations = {loc for loc in locations if loc.startswith(":") or loc.split(":", 1)[0] == worker}
    return bool(locations)


def in_scope(name, scope, d):
    if scope[0] == "run":
        return True
    if scope[0] == "worker":
        return re.search(r"(^|\.)" + re.escape(scope[1]) + r"($|\.)", name) is not None
    return f".{scope[1]}." in name


def interleaving_signature(d):
    """Order of (worker, class) at execution start + overlapping pairs: how distinct interleavings are counted."""
    order = [(e["w"], e["cls"].split(".vms.")[0]) for e in d.execs]
    overlaps = set()
    for a in d.execs:
        for b in d.execs:
            if a["id"] < b["id"] and a["s1"] is not None and b["s0"] < a["s1"] and a["w"] != b["w"]:
                overlaps.add((a["cls"].split(".vms.")[0], b["cls"].split(".vms.")[0]))
    return [order, sorted(overlaps)]
