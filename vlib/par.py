"""
Case-parallel execution in child processes (never multiprocessing.Pool: a dying child would hang it).

run_cases("checks.c11:run_case", cases, jobs) starts `jobs` long-lived children (python -m vlib.par <target>);
each reads one JSON case per line from stdin and answers with one JSON line.  A child that dies or exceeds
the per-case timeout is killed and restarted; its case is reported as {"inconclusive": reason}.
Every child gets its own scratch HOME (avocado_overwrite_*.cfg are generated there) which is removed at the end.
"""

import importlib
import json
import os
import queue
import select
import shutil
import subprocess
import sys
import tempfile
import threading
import time

PYTHON = "/venv/bin/python"


def _child_main(target):
    module_name, function_name = target.split(":")
    import logging
    logging.disable(logging.CRITICAL)
    module = importlib.import_module(module_name)
    function = getattr(module, function_name)
    init = getattr(module, "child_init", None)
    if init:
        init()
    out = os.fdopen(os.dup(1), "w")
    # anything the code under test prints must not corrupt the protocol
    os.dup2(2, 1)
    out.write("READY\n")
    out.flush()
    for line in sys.stdin:
        case = json.loads(line)
        try:
            result = function(case)
        except BaseException as error:  # the harness itself failed: never a verdict
            import traceback
            result = {"inconclusive": f"harness exception {type(error).__name__}: {error}",
                      "traceback": traceback.format_exc()[-3000:]}
        out.write(json.dumps(result, default=str) + "\n")
        out.flush()


class _Child:
    def __init__(self, target, index, env_extra):
        self.home = tempfile.mkdtemp(prefix=f"verif-home-{index}-")
        env = dict(os.environ, HOME=self.home, PYTHONHASHSEED="0", **(env_extra or {}))
        self.proc = subprocess.Popen([PYTHON, "-X", "faulthandler", "-m", "vlib.par", target], stdin=subprocess.PIPE,
                                     stdout=subprocess.PIPE, stderr=subprocess.DEVNULL, env=env, text=True, bufsize=1)
        self._wait_line(120)

    def _wait_line(self, timeout):
        deadline = time.time() + timeout
        while True:
            remaining = deadline - time.time()
            if remaining <= 0:
                return None
            ready, _, _ = select.select([self.proc.stdout], [], [], min(remaining, 1.0))
            if ready:
                line = self.proc.stdout.readline()
                if line == "":
                    return ""
                return line
            if self.proc.poll() is not None:
                return ""

    def run(self, case, timeout):
        try:
            self.proc.stdin.write(json.dumps(case, default=str) + "\n")
            self.proc.stdin.flush()
        except (BrokenPipeError, OSError):
            return None, "child died before the case"
        line = self._wait_line(timeout)
        if line is None:
            return None, f"watchdog: no answer within {timeout}s"
        if line == "":
            return None, f"child died (exit {self.proc.poll()})"
        try:
            return json.loads(line), None
        except ValueError:
            return None, f"garbled answer {line[:200]!r}"

    def close(self):
        try:
            self.proc.kill()
        except OSError:
            pass
        try:
            self.proc.wait(timeout=10)
        except Exception:
            pass
        shutil.rmtree(self.home, ignore_errors=True)


def run_cases(target, cases, jobs=16, timeout=300, env_extra=None, budget_s=None):
    """Yield (case, result) pairs as they complete; result always is a dict."""
    work = queue.Queue()
    done = queue.Queue()
    cases = iter(cases)
    lock = threading.Lock()
    t0 = time.time()
    state = {"exhausted": False}

    def next_case():
        with lock:
            if state["exhausted"] or (budget_s is not None and time.time() - t0 > budget_s):
                state["exhausted"] = True
                return None
            try:
                return next(cases)
            except StopIteration:
                state["exhausted"] = True
                return None

    def worker(index):
        child = None
        try:
            while True:
                case = next_case()
                if case is None:
                    break
                if child is None:
                    child = _Child(target, index, env_extra)
                result, problem = child.run(case, timeout)
                if problem is not None:
                    child.close()
                    child = None
                    result = {"inconclusive": problem}
                done.put((case, result))
        finally:
            if child is not None:
                child.close()
            done.put(None)

    threads = [threading.Thread(target=worker, args=(i,), daemon=True) for i in range(jobs)]
    for thread in threads:
        thread.start()
    finished = 0
    while finished < len(threads):
        item = done.get()
        if item is None:
            finished += 1
            continue
        yield item


if __name__ == "__main__":
    _child_main(sys.argv[1])
