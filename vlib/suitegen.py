"""
Engine G - generator of complete mini test suites with a known (drawn) setup DAG.

write_suite(spec, directory) writes configs/{nets,guest-base,guest,vms,groups-base,groups,sets,*-overwrite}.cfg plus the
directories the code expects; draw_spec(rng) draws a spec.  The shipped nets.cfg, guest-base.cfg and groups-base.cfg are copied
(worker and object parsing depend on them); guest.cfg/vms.cfg/groups.cfg/sets.cfg are generated.  Variant names the code
hard-wires (original, internal.stateless.noop, internal.stateless.manage.*, internal.stateful.*, all/leaves/nonleaves, vms,
nets) are kept.
"""

import os
import shutil

STATELESS_AND_STATEFUL = """
            - stateless:
                get =
                get_state(_vm.*)? ?=
                get_state_nets = root
                variants:
                    - noop:
                    - manage:
                        type = shared_manage_vm
                        variants:
                            - run:
                                vm_action = run
                            - download:
                                vm_action = download
                            - upload:
                                vm_action = upload
                            - start:
                                vm_action = boot
                                start_vm = yes
                            - stop:
                                vm_action = shutdown
                                kill_vm = yes
            - stateful:
                type = shared_manage_vm
                variants:
                    - check:
                        vm_action = check
                    - get:
                        vm_action = get
                    - set:
                        vm_action = set
                    - unset:
                        vm_action = unset
                    - push:
                        vm_action = push
                    - pop:
                        vm_action = pop
"""


GUEST_BASE_MINIMAL = """
vm_type = qemu
vms = @VMS@
main_vm = vm1
nets = net0 net1 net2 net3 net4 net5 net6 net7 net8 net9
nets += " cluster1.net6 cluster1.net7 cluster1.net8 cluster1.net9"
nets += " cluster2.net6 cluster2.net7 cluster2.net8 cluster2.net9"
nics = nic1
images = image1
image_name = image
image_size = 30G
image_raw_device = no
remove_image = no
vms_base_dir = /mnt/local/images/
images_base_dir = ${vms_base_dir}
get_state = 0root
states_chain = nets vms images
states_nets = vmnet
states_images = qcow2ext
states_vms = ramfile
nets_ip_prefix = 192.168.254
nets_shell_client = ssh
nets_shell_port = 22
nets_shell_prompt = ^\\[.*\\][\\#\\$]\\s*$
nets_file_transfer_client = scp
nets_file_transfer_port = 22
nets_username = root
nets_password = test1234
mode = tool
setup = run
remove_set = minimal
"""

GROUPS_BASE_MINIMAL = """
main_restrictions = all nonleaves leaves normal minimal
create_image = no
skip_image_processing = yes
start_vm = no
kill_vm = no
get_mode = ra
set_mode = ff
unset_mode = ri
set_state_nets_on_error =
set_state_vms_on_error =
set_state_images_on_error =
pool_scope = own swarm cluster shared
pool_filter = reuse
shared_pool = /mnt/local/images/shared
swarm_pool = /mnt/local/images/swarm
"""


def draw_spec(rng, n_vms=None, max_depth=4, allow_multi_producer=True, allow_removable=True, allow_permanent=False,
              state_equals_name=False, multi_producer_share=0.35, grand_share=0.5):
    """Draw a random suite description (JSON-able)."""
    n_vms = n_vms or rng.choice([1, 2, 2, 3])
    letters = "ABCDEF"
    vms = {}
    for index in range(n_vms):
        name = f"vm{index + 1}"
        n_variants = rng.choice([1, 1, 2])
        vms[name] = {"variants": [f"{letters[index]}{k + 1}" for k in range(n_variants)],
                     "images": ["image1"] if rng.random() < 0.8 else ["image1", "image2"], "permanent": False}
    # a tree of setup tests below "install"
    setups = []
    frontier = [("install", "images", 0)]
    n_setups = rng.randint(2, 7)
    while len(setups) < n_setups and frontier:
        parent, parent_level, depth = rng.choice(frontier)
        if depth >= max_depth:
            frontier.remove((parent, parent_level, depth))
            continue
        name = f"s{len(setups) + 1}"
        level = "images" if rng.random() < 0.7 else "vms"
        setup = {"name": name, "parent": parent, "parent_level": parent_level, "level": level,
                 "state": name if state_equals_name else f"st{len(setups) + 1}",
                 "removable": allow_removable and rng.random() < 0.25,
                 "test_timeout": rng.choice([100, 100, 300, 50, 1000])}
        setups.append(setup)
        frontier.append((name, level, depth + 1))
        if rng.random() < 0.3:
            frontier.remove((parent, parent_level, depth)) if (parent, parent_level, depth) in frontier and parent != "install" else None
    producers = {"install": ("images", "install")}
    for setup in setups:
        producers[setup["name"]] = (setup["level"], setup["state"])
    leaves = []
    n_leaves = rng.randint(1, 5)
    vm_names = list(vms)
    for index in range(n_leaves):
        used = rng.sample(vm_names, rng.choice([1, 1, 1, 2] if len(vm_names) >= 2 else [1]))
        used.sort()
        needs = {vm: rng.choice(list(producers)) for vm in used}
        leaf = {"name": f"t{index + 1}", "vms": used, "needs": needs, "test_timeout": rng.choice([100, 100, 300, 20]),
                "only": {}}
        for vm in used:
            if len(vms[vm]["variants"]) > 1 and rng.random() < 0.3:
                leaf["only"][vm] = rng.choice(vms[vm]["variants"])
        leaves.append(leaf)
    groups = []
    if allow_multi_producer and len(vm_names) >= 1 and rng.random() < multi_producer_share:
        # a group of leaf variants each producing its own state on one vm, and a dependant on the whole group (cloning)
        vm = rng.choice(vm_names)
        base = rng.choice(list(producers))
        group = {"name": "mp1", "vm": vm, "base": base, "variants": [{"name": "pa", "state": "mpst.a", "removable": rng.random() < 0.3},
                                                                       {"name": "pb", "state": "mpst.b", "removable": False}],
                 "dependant": {"name": "tdep", "sets": rng.choice(["", "depst"])},
                 "grand": rng.random() < grand_share}
        if group["grand"]:
            # only a test that saves a state can be somebody's setup
            group["dependant"]["sets"] = "depst"
        groups.append(group)
        # cloning per producer is only exercised with single-image vms (as in the shipped suite)
        vms[vm]["images"] = ["image1"]
    return {"vms": vms, "setups": setups, "leaves": leaves, "groups": groups}


def draw_fan_spec(rng):
    """One vm, a short chain of (mostly removable) setups and several leaves depending on the same setup."""
    vms = {"vm1": {"variants": ["A1"], "images": ["image1"], "permanent": False}}
    setups = [{"name": "s1", "parent": "install", "parent_level": "images", "level": rng.choice(["images", "images", "vms"]), "state": "st1",
               "removable": rng.random() < 0.8, "test_timeout": rng.choice([50, 100, 300])}]
    if rng.random() < 0.5:
        setups.append({"name": "s2", "parent": "s1", "parent_level": setups[0]["level"], "level": "images", "state": "st2",
                       "removable": rng.random() < 0.8, "test_timeout": rng.choice([50, 100])})
    leaves = []
    for index in range(rng.randint(2, 6)):
        # most leaves depend on the drawn setups, some only on the installed vm (work that keeps a worker away)
        leaves.append({"name": f"t{index + 1}", "vms": ["vm1"], "needs": {"vm1": rng.choice([s["name"] for s in setups] * 3 + ["install"])},
                       "test_timeout": rng.choice([20, 100, 300]), "only": {}})
    return {"vms": vms, "setups": setups, "leaves": leaves, "groups": []}


def _get_lines(vm, producer_name, level, state, indent, specific=True):
    suffix = f"_{vm}" if specific else ""
    pad = " " * indent
    return (f"{pad}get_{level}{suffix} = {producer_name}\n"
            f"{pad}get_state_{level}{suffix} = {state}\n")


def groups_cfg(spec):
    producers = {"install": ("images", "install")}
    for setup in spec["setups"]:
        producers[setup["name"]] = (setup["level"], setup["state"])
    text = "include groups-base.cfg\n\nvariants:\n"
    text += ("    - original:\n        get_state_vms =\n        set_state_images = install\n        variants:\n"
             "            - install:\n                type = steps\n                test_timeout = 200\n")
    text += "    - internal:\n        variants:\n" + STATELESS_AND_STATEFUL.strip("\n") + "\n"
    text += "            - automated:\n                variants:\n"
    if not spec["setups"]:
        text += "                    - unused_setup:\n                        get_images = install\n                        get_state_images = install\n                        set_state_images = unused\n"
    for setup in spec["setups"]:
        text += f"                    - {setup['name']}:\n"
        text += f"                        type = setup_{setup['name']}\n"
        text += f"                        test_timeout = {setup['test_timeout']}\n"
        text += _get_lines("", setup["parent"], setup["parent_level"], producers[setup["parent"]][1], 24, specific=False)
        text += f"                        set_state_{setup['level']} = {setup['state']}\n"
        if setup["removable"]:
            # both spellings mark the state for removal: typed by level, or generic for all objects of the test
            generic = int(setup["name"][1:]) % 2 == 0 if setup["name"][1:].isdigit() else False
            text += "                        unset_mode = fi\n" if generic else f"                        unset_mode_{setup['level']} = fi\n"
    for leaf in spec["leaves"]:
        text += f"    - {leaf['name']}:\n        type = leaf_{leaf['name']}\n        vms = {' '.join(leaf['vms'])}\n"
        text += f"        test_timeout = {leaf['test_timeout']}\n"
        for vm, producer in leaf["needs"].items():
            level, state = producers[producer]
            text += _get_lines(vm, producer, level, state, 8)
        for vm, variant in leaf["only"].items():
            text += f"        only_{vm} = {variant}\n"
    for group in spec["groups"]:
        vm = group["vm"]
        level, state = producers[group["base"]]
        text += f"    - {group['name']}:\n        type = leaf_{group['name']}\n        vms = {vm}\n"
        text += _get_lines(vm, group["base"], level, state, 8)
        text += "        variants:\n"
        for variant in group["variants"]:
            text += f"            - {variant['name']}:\n                set_state_images_{vm} = {variant['state']}\n"
            if variant["removable"]:
                text += f"                unset_mode_images_{vm} = fi\n"
        dependant = group["dependant"]
        text += f"    - {dependant['name']}:\n        type = leaf_{dependant['name']}\n        vms = {vm}\n"
        text += f"        get_images_{vm} = {group['name']}\n"
        if dependant["sets"]:
            text += f"        set_state_images_{vm} = {dependant['sets']}\n"
        if group["grand"]:
            text += f"    - tgrand:\n        type = leaf_tgrand\n        vms = {vm}\n        get_images_{vm} = {dependant['name']}\n"
    return text


def leaf_names(spec):
    names = [leaf["name"] for leaf in spec["leaves"]]
    for group in spec["groups"]:
        names += [group["name"], group["dependant"]["name"]] + (["tgrand"] if group["grand"] else [])
    return names


def sets_cfg(spec):
    names = leaf_names(spec)
    minimal = names[0] if names else "noop"
    return ("include groups.cfg\n\nvariants:\n    - @all:\n    - nonleaves:\n        only internal, original\n"
            "    - leaves:\n        no internal, original\n    - normal:\n        no internal, original\n"
            f"    - minimal:\n        only {minimal}\n")


def guest_cfg(spec):
    text = "include guest-base.cfg\n\nconfigure_install = configure_install_step\nimage_format = qcow2\n\nvariants:\n"
    for vm, description in spec["vms"].items():
        for variant in description["variants"]:
            text += f"    - {variant}:\n        os_variant = {variant.lower()}\n"
    return text


def vms_cfg(spec):
    text = "include guest.cfg\n\nnets = net1\nvms =\nmain_vm =\nnics = b0\nnetmask = 255.255.0.0\n\nvariants:\n"
    for index, (vm, description) in enumerate(spec["vms"].items()):
        text += f"    - {vm}:\n        vms = \"{vm}\"\n        main_vm = {vm}\n        nics = b0\n        ip_b0 = 192.168.{index + 1}.1\n"
        text += f"        mac_b0 = 02:00:00:00:0{index + 1}:01\n"
        if description.get("permanent"):
            text += f"        states_images_{vm} = qcow2\n        states_vms_{vm} = qcow2vt\n        permanent_vm = yes\n"
        else:
            text += f"        states_images_{vm} = qcow2ext\n        states_vms_{vm} = ramfile\n"
        text += f"        images_base_dir += {vm}/\n"
        if len(description["images"]) > 1:
            text += f"        images = {' '.join(description['images'])}\n"
            for image in description["images"][1:]:
                text += f"        image_name_{image} = {image}\n"
        text += f"        only {', '.join(description['variants'])}\n        suffix _{vm}\n"
    text += "\nvariants:\n    - @vms:\n"
    return text


def write_suite(spec, directory, shipped):
    """Write the suite; `shipped` is the tp_folder of the repository under test."""
    configs = os.path.join(directory, "configs")
    os.makedirs(configs, exist_ok=True)
    for sub in ("controls", "tools", "utils", "tests", "data"):
        os.makedirs(os.path.join(directory, sub), exist_ok=True)
    for name in ("pre_state.control", "pre_test.control", "manual.control"):
        source = os.path.join(shipped, "controls", name)
        if os.path.exists(source):
            shutil.copy(source, os.path.join(directory, "controls", name))
    nets = open(os.path.join(shipped, "configs", "nets.cfg")).read()
    # worker restrictions of the shipped nets refer to shipped guest variants: map them to the generated ones
    first = {vm: description["variants"][0] for vm, description in spec["vms"].items()}
    last = {vm: description["variants"][-1] for vm, description in spec["vms"].items()}
    nets = nets.replace("only_vm1 = CentOS, Fedora", f"only_vm1 = {first.get('vm1', 'A1')}")
    nets = nets.replace("only_vm1 = Fedora", f"only_vm1 = {last.get('vm1', 'A1')}")
    nets = nets.replace("only_vm1 = CentOS", f"only_vm1 = {first.get('vm1', 'A1')}")
    nets = nets.replace("no_vm2 = WinXP, Win8", "no_vm2 = B9")
    nets = nets.replace("no_vm2 = Win7", f"no_vm2 = {last.get('vm2', 'B1')}" if len(spec["vms"].get("vm2", {}).get("variants", [])) > 1 else "no_vm2 = B9")
    nets = nets.replace("no_vm2 = Win10", "no_vm2 = B9")
    open(os.path.join(configs, "nets.cfg"), "w").write(nets)
    if spec.get("full_base_configs"):
        base = open(os.path.join(shipped, "configs", "guest-base.cfg")).read()
        base = base.replace("vms = vm1 vm2 vm3", "vms = " + " ".join(spec["vms"]))
        groups_base = open(os.path.join(shipped, "configs", "groups-base.cfg")).read()
        groups_base = groups_base.replace("main_restrictions = all nonleaves leaves normal normal.gui normal.nongui minimal",
                                          "main_restrictions = all nonleaves leaves normal minimal")
    else:
        # the parameters of the shipped base configs that parsing, traversal and the state layer actually consume
        base = GUEST_BASE_MINIMAL.replace("@VMS@", " ".join(spec["vms"]))
        groups_base = GROUPS_BASE_MINIMAL
    open(os.path.join(configs, "guest-base.cfg"), "w").write(base)
    open(os.path.join(configs, "groups-base.cfg"), "w").write(groups_base)
    open(os.path.join(configs, "guest.cfg"), "w").write(guest_cfg(spec))
    open(os.path.join(configs, "vms.cfg"), "w").write(vms_cfg(spec))
    open(os.path.join(configs, "groups.cfg"), "w").write(groups_cfg(spec))
    open(os.path.join(configs, "sets.cfg"), "w").write(sets_cfg(spec))
    open(os.path.join(configs, "sets-overwrite.cfg"), "w").write("default_only = normal\n")
    overwrite = "".join(f"default_only_{vm} = {description['variants'][0]}\n" for vm, description in spec["vms"].items())
    open(os.path.join(configs, "objects-overwrite.cfg"), "w").write(overwrite)
    return directory


def expected_chain(spec, producer):
    """Setup classes from a producer up to and including install (ground truth of the drawn DAG)."""
    by_name = {setup["name"]: setup for setup in spec["setups"]}
    chain = []
    while producer != "install":
        chain.append(producer)
        producer = by_name[producer]["parent"]
    chain.append("install")
    return chain
