"""
Tool-level engine: drives intertest_setup.update (C15) and plugins.manu.Manu.run chains (C20) with the traversal
simulator's seams plus the selftests' job seam; returns executions, door requests and return codes.
"""

import asyncio
import collections
import contextlib
import traceback
import unittest.mock as mock

from vlib import travsim, suitegen
from vlib.vclock import VirtualLoop


@contextlib.contextmanager
def sim_new_job(config):
    job = mock.MagicMock()
    job.logdir = "."
    job.timeout = 6000
    job.config = config
    job.result.tests = []
    loader, runner = config["graph"].l, config["graph"].r
    loader.logdir = job.logdir
    runner.job = job
    travsim.CTX.jobs.append(job)
    yield job


def run_tool_case(case):
    from virttest.utils_params import Params
    from avocado_i2n import params_parser as param
    from avocado_i2n import intertest_setup
    record = {"steps": [], "events": None}
    travsim.reset_ctx(case)
    travsim.CTX.jobs = []
    scratch = None
    try:
        if case.get("suite_spec"):
            import tempfile
            scratch = tempfile.mkdtemp(prefix="verif-suite-")
            suitegen.write_suite(case["suite_spec"], scratch, param._devel_tp_folder)
        travsim.use_suite(scratch)
        travsim.install_seams()
        intertest_setup.new_job = sim_new_job
        travsim.CTX.main_restrictions = param.all_restrictions()
        loop = VirtualLoop()
        asyncio.set_event_loop(loop)
        travsim.CTX.loop = loop
        # worker table for the store model (the tools parse their own workers)
        from avocado_i2n.cartgraph import TestGraph
        probe = TestGraph()
        probe.new_workers(TestGraph.parse_workers({"nets": case["nets"]}))
        travsim.CTX.workers = travsim.worker_table(probe)
        for worker in probe.workers.values():
            travsim.CTX.by_session[f"{worker.params['nets_shell_host']}:{worker.params['nets_shell_port']}"] = worker.id
        record["workers"] = travsim.CTX.workers
        if case["tool"] == "update":
            config = {"available_vms": dict(case["available_vms"]), "available_restrictions": param.all_restrictions(),
                      "param_dict": dict(case.get("params", {}), nets=case["nets"]), "vm_strs": dict(case["vm_strs"]),
                      "tests_str": {}, "tests_params": Params(), "vms_params": Params(case.get("vms_params", {}))}
            mark = len(travsim.CTX.events)
            try:
                rc = intertest_setup.update(config, tag="1r")
                outcome = {"rc": rc}
            except Exception as error:
                outcome = {"exception": type(error).__name__, "message": str(error)[:500], "trace": traceback.format_exc()[-1500:]}
            record["steps"].append({"step": "update", "outcome": outcome, "first_event": mark, "last_event": len(travsim.CTX.events)})
        else:
            from avocado_i2n.plugins.manu import Manu
            from avocado_i2n.plugins import manu as manu_module
            calls = []
            real_getattr = {}
            # wrap every step function to know which events belong to which step (and inject exceptions)
            steps = case["chain"]
            for position, step in enumerate(steps):
                if step in real_getattr:
                    continue
                real = getattr(intertest_setup, step)
                real_getattr[step] = real

                def make(step_name, function):
                    def wrapper(config, tag=""):
                        if travsim.CTX.counters["tool_depth"] > 0:
                            # a tool reusing another tool (create -> set, ...): same step
                            return function(config, tag=tag)
                        travsim.CTX.counters["tool_depth"] += 1
                        try:
                            return outer(config, tag)
                        finally:
                            travsim.CTX.counters["tool_depth"] -= 1

                    def outer(config, tag):
                        index = len(calls)
                        calls.append({"step": step_name, "tag": tag, "first_event": len(travsim.CTX.events)})
                        travsim.CTX.step_index = index
                        try:
                            if case.get("inject_exception_at") == index:
                                calls[index]["injected"] = True
                                kinds = {"RuntimeError": RuntimeError, "TimeoutError": TimeoutError, "KeyError": KeyError, "OSError": OSError,
                                         "TypeError": TypeError, "AssertionError": AssertionError, "ValueError": ValueError}
                                raise kinds[case.get("inject_exception_type", "RuntimeError")]("injected tool failure")
                            result = function(config, tag=tag)
                            calls[index]["returned"] = result
                            return result
                        except Exception as error:
                            calls[index]["exception"] = type(error).__name__
                            calls[index]["exception_message"] = str(error)[:300]
                            raise
                        finally:
                            calls[index]["last_event"] = len(travsim.CTX.events)
                    return wrapper
                setattr(intertest_setup, step, make(step, real))
            try:
                config = {"i2n.manu.params": list(case["args"])}
                rc = Manu().run(config)
                record["rc"] = rc
            except Exception as error:
                record["exception"] = {"type": type(error).__name__, "message": str(error)[:500], "trace": traceback.format_exc()[-1500:]}
            finally:
                for step, real in real_getattr.items():
                    setattr(intertest_setup, step, real)
            record["steps"] = calls
    except BaseException as error:
        record["setup_exception"] = {"type": type(error).__name__, "message": str(error)[:800], "trace": traceback.format_exc()[-2500:]}
    finally:
        if scratch:
            import shutil
            shutil.rmtree(scratch, ignore_errors=True)
    record["events"] = travsim.CTX.events
    record["store_after"] = travsim.CTX.store.dump()
    return record
