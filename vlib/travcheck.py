"""Child-side glue: run one traversal case and apply the requested oracles; only findings and counters travel back."""

import collections
import time

from vlib import oracles_trav as oracles
from vlib import travsim

ORACLES = {
    "C01": lambda d, case: oracles.oracle_c01(d),
    "C02": oracles.oracle_c02,
    "C03": oracles.oracle_c03,
    "C04": oracles.oracle_c04,
    "C05": oracles.oracle_c05,
    "C08": oracles.oracle_c08,
    "C10": oracles.oracle_c10,
}


def run_and_judge(case):
    t0 = time.time()
    record = travsim.run_case(case)
    result = {"findings": {}, "counters": {}, "wall": None, "signature": None, "stats": {}}
    if "setup_exception" in record:
        result["setup_exception"] = record["setup_exception"]
        result["wall"] = round(time.time() - t0, 2)
        return result
    record["case"] = case
    # the run that counts is the last phase (after a possible interrupted first run)
    d = oracles.digest(record, -1)
    for prop in case.get("oracles", list(ORACLES)):
        findings, counters = ORACLES[prop](d, case)
        seen, unique = set(), []
        for mechanism, message in findings:
            if mechanism not in seen:
                seen.add(mechanism)
                unique.append([mechanism, message[:1500]])
        result["findings"][prop] = unique
        result["counters"][prop] = dict(counters)
    if len(record["phases"]) > 1 and "C02" in case.get("oracles", []):
        pass
    result["signature"] = oracles.interleaving_signature(d)
    result["stats"] = {"execs": len(d.execs), "workers": len(d.workers), "nodes": len(d.nodes), "vtime": d.outcome["vtime"],
                       "iterations": sum(d.phase["iterations"].values()), "events": len(record["events"]),
                       "phases": len(record["phases"]), "door": len([e for e in d.events if e["k"] == "door"]),
                       "outcome_exception": (d.outcome["exception"] or {}).get("type"),
                       "worker_errors": {w: e["type"] for w, e in d.outcome["worker_errors"].items()},
                       "statuses": dict(collections.Counter(e["status"] for e in d.execs if e["status"])),
                       "interrupted_first_run": len(record["phases"]) > 1 and not case.get("replay_run"),
                       "replayed_first_run": len(record["phases"]) > 1 and bool(case.get("replay_run"))}
    if case.get("return_events"):
        result["events"] = record["events"]
        result["nodes"] = d.nodes
    result["wall"] = round(time.time() - t0, 2)
    return result
