"""Case generation for the traversal engine (worker sets, scopes, retry settings, populations, outcome plans)."""

import copy

from vlib import suitegen

LXC = ["net1", "net2", "net3", "net4", "net5"]
CLUSTER = ["cluster1.net6", "cluster1.net7", "cluster1.net8", "cluster2.net6", "cluster2.net8", "cluster2.net9"]
STATUSES = ["PASS", "FAIL", "ERROR", "WARN", "SKIP", "CANCEL", "INTERRUPTED"]

SHIPPED_SELECTIONS = [
    ("normal..tutorial1", 1), ("only normal\nonly tutorial1,tutorial2\n", 2), ("only leaves\nonly tutorial1,tutorial3.no_remote\n", 3),
    ("leaves..tutorial_gui", 4), ("normal..tutorial3.no_remote", 3), ("leaves..tutorial_get.explicit_noop", 6),
    ("only leaves\nonly tutorial2.names,tutorial1\n", 2),
    ("only leaves..tutorial_get.explicit_noop,normal..tutorial_gui.client_noop\n", 6),
]
SHIPPED_VM_STRS = {"vm1": "only CentOS\n", "vm2": "only Win10\n", "vm3": "only Ubuntu\n"}


def draw_nets(rng, kind=None, max_workers=4):
    kind = kind or rng.choice(["lxc", "lxc", "lxc", "remote", "mixed", "serial"])
    if kind == "serial":
        return "net0", kind
    if kind == "lxc":
        chosen = rng.sample(LXC, rng.randint(1, max_workers))
    elif kind == "remote":
        chosen = rng.sample(CLUSTER, rng.randint(2, max_workers))
    else:
        return " ".join(sorted(rng.sample(LXC[:2] + LXC[3:4], rng.randint(1, 2))) + sorted(rng.sample(CLUSTER, rng.randint(1, 2)))), kind
    # the order in which the workers are named matters (the first one's restrictions shape the up-front graph): mostly sorted,
    # sometimes as drawn (e.g. a restricted worker like net5 or net3 first)
    return " ".join(chosen if rng.random() < 0.35 else sorted(chosen)), kind


def object_ids(spec, vm_strs):
    """(object key, kind) of every vm/image object a generated suite can have under the vm restrictions."""
    objects = []
    for vm, description in spec["vms"].items():
        restriction = vm_strs.get(vm, "")
        for variant in description["variants"]:
            if restriction.strip() and variant not in restriction:
                continue
            object_id = f"{vm}-vms.{vm}.{variant}"
            objects.append((object_id, "vms", vm))
            for image in description["images"]:
                objects.append((f"{object_id}/{image}", "images", vm))
    return objects


def producible(spec):
    states = {"images": ["install"], "vms": []}
    for setup in spec["setups"]:
        states[setup["level"]].append(setup["state"])
    for group in spec["groups"]:
        for variant in group["variants"]:
            states["images"].append(variant["state"])
    return states


def draw_population(rng, spec, vm_strs, nets, kind):
    """Initial store contents: empty / shared pool subset / own pool subsets."""
    store = {"states": {}, "roots": {}}
    if kind == "empty":
        return store
    states = producible(spec)
    objects = object_ids(spec, vm_strs)
    workers = nets.split()
    locations = [":/mnt/local/images/shared"] if kind == "shared" else \
        [f"{w}:/mnt/local/images/swarm" for w in rng.sample(workers, rng.randint(1, len(workers)))]
    if kind == "mixed":
        locations.append(":/mnt/local/images/shared")
    density = rng.choice([0.2, 0.5, 0.8, 1.0])
    for location in locations:
        entries = []
        for obj, level, vm in objects:
            for state in states[level]:
                if rng.random() < density:
                    entries.append([obj, state])
        if entries:
            store["states"][location] = entries
            store["roots"][location] = sorted({obj for obj, _ in entries})
    return store


def draw_params(rng, focus=None, worker_kind="lxc", odd_scopes=False):
    params = {"shared_pool": "/mnt/local/images/shared"}
    # scope sets that are consistent with the kind of workers: lxc workers reach each other through "swarm",
    # remote ones through "swarm" (same cluster) and "cluster"
    if worker_kind == "mixed":
        # lxc and remote workers in one run only agree on who shares setup under the complete scope
        scope = rng.choice([None, None, "shared cluster swarm own"])
    elif worker_kind == "remote":
        scope = rng.choice([None, None, "own swarm shared", "shared cluster swarm own"])
    else:
        scope = rng.choice([None, None, None, "own shared", "own", "own swarm shared", "swarm cluster shared own"])
    if odd_scopes:
        scope = rng.choice(["own cluster shared", "swarm shared", "own swarm", "shared", "own cluster"])
    if scope:
        params["pool_scope"] = scope
    if rng.random() < (0.6 if focus in ("retry", "C03", "C04", "C10") else 0.25):
        params["max_tries"] = str(rng.choice([1, 2, 2, 3, 4]))
        if rng.random() < 0.4:
            params["max_concurrent_tries"] = str(min(int(params["max_tries"]), rng.choice([1, 1, 2, 3])))
        if rng.random() < 0.5:
            params["rerun_status"] = " ".join(rng.sample(["fail", "error", "warn", "pass", "skip"], rng.randint(1, 3)))
        if rng.random() < 0.3:
            params["stop_status"] = " ".join(rng.sample(["fail", "error", "pass", "warn"], rng.randint(1, 2)))
    if rng.random() < 0.15:
        params["pool_filter"] = rng.choice(["reuse", "block", "copy"])
    return params


def draw_plan(rng, spec_or_none, failing=None, seed=0):
    plan = {"default_status": "PASS", "dur_seed": seed, "dur_mode": rng.choice(["short", "short", "tied", "heavy"]),
            "by_class": {}, "withhold": []}
    classes = []
    if spec_or_none is not None:
        classes = ["original.install", "internal.stateless.noop"] + [f"internal.automated.{s['name']}" for s in spec_or_none["setups"]] + \
            suitegen.leaf_names(spec_or_none)
    else:
        classes = ["original.unattended_install", "internal.stateless.noop", "internal.automated.customize", "internal.automated.on_customize",
                   "internal.automated.connect", "internal.automated.linux_virtuser", "internal.automated.windows_virtuser",
                   "quicktest.tutorial1", "quicktest.tutorial2", "tutorial3", "tutorial_gui", "tutorial_get"]
    mode = failing if failing is not None else rng.choice(["none", "none", "one-persistent", "one-flaky", "random"])
    if mode == "one-persistent":
        cls = rng.choice(classes)
        plan["by_class"][f"re:^{cls}(\\.|$)"] = [rng.choice(["FAIL", "ERROR"])]
    elif mode == "one-flaky":
        cls = rng.choice(classes)
        plan["by_class"][f"re:^{cls}(\\.|$)"] = [rng.choice(["FAIL", "ERROR"]), rng.choice(["PASS", "FAIL", "WARN"]), "PASS"]
    elif mode == "random":
        for cls in rng.sample(classes, rng.randint(1, min(3, len(classes)))):
            plan["by_class"][f"re:^{cls}(\\.|$)"] = [rng.choice(STATUSES) for _ in range(rng.randint(1, 4))]
    return plan


def draw_case(rng, focus=None, shipped_share=0.0, serial=0):
    """One traversal case; JSON-able."""
    if rng.random() < shipped_share:
        restriction, _ = rng.choice(SHIPPED_SELECTIONS)
        nets, kind = draw_nets(rng, max_workers=3)
        case = {"restriction": restriction, "vm_strs": dict(SHIPPED_VM_STRS), "nets": nets, "eager": rng.random() < 0.3,
                "params": draw_params(rng, focus, kind), "plan": draw_plan(rng, None, seed=serial), "store": {"states": {}, "roots": {}},
                "population": "empty", "suite": "shipped", "worker_kind": kind,
                "permanent_states": [{"pool": "/mnt/local/images/swarm", "obj": "vm3-vms.vm3.qemu_kvm_ubuntu.default_bios.no_virtio_rng."
                                      "no_9p_export.smallpages.no_pci_assignable.qcow2.virtio_blk.smp2.virtio_net.i440fx.Linux.Ubuntu."
                                      "14.04.3-server.x86_64", "state": "ready"}]}
        if rng.random() < 0.3:
            case["interrupt_at"] = round(rng.uniform(1, 400), 2)
            case["population"] = "residue"
        return case
    spec = suitegen.draw_spec(rng)
    vm_strs = {}
    for vm, description in spec["vms"].items():
        vm_strs[vm] = f"only {description['variants'][0]}\n" if rng.random() < 0.8 else ""
    nets, kind = draw_nets(rng)
    leaves = suitegen.leaf_names(spec)
    selection = rng.random()
    if selection < 0.6 or len(leaves) < 2:
        restriction = "leaves"
    elif selection < 0.8:
        restriction = "only leaves\nonly " + ",".join(rng.sample(leaves, rng.randint(1, len(leaves) - 1))) + "\n"
    else:
        restriction = "normal"
    population = rng.choice(["empty", "empty", "shared", "own", "mixed", "residue"])
    case = {"suite_spec": spec, "restriction": restriction, "vm_strs": vm_strs, "nets": nets, "eager": rng.random() < 0.25,
            "params": draw_params(rng, focus, kind), "plan": draw_plan(rng, spec, seed=serial), "population": population,
            "store": draw_population(rng, spec, vm_strs, nets, population if population != "residue" else "empty"),
            "suite": "generated", "worker_kind": kind}
    if population == "residue":
        case["interrupt_at"] = round(rng.choice([rng.uniform(0.5, 30), rng.uniform(5, 300)]), 2)
    return case
