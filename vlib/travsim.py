"""
Engine T - traversal simulator.

Runs the REAL graph parsing and TestGraph.traverse_object_trees / TestRunner.run_test_node for all workers on a
virtual-time asyncio loop.  Replaced seams (the same ones the selftests mock): TestRunner.run_test_task (SimRun),
cartgraph.node.door (SimDoor, which runs the real states.setup.check/get/unset_states exactly like
controls/pre_state.control does, against in-memory backends), worker.remote.wait_for_login, and the `asyncio`
name inside cartgraph.graph (to see every back-off sleep).  Everything observable is appended to an event log.
"""

import asyncio
import collections
import hashlib
import json
import os
import random
import re
import traceback
import unittest.mock as mock

from vlib.vclock import VirtualLoop, Deadlock

ROOTS = ["root", "0root", "boot", "0boot"]
OK_STATUSES = ["PASS", "WARN"]


class Ctx:
    """Per-case context shared by the seams."""

    def __init__(self):
        self.events = []
        self.loop = None
        self.worker = None            # id of the worker on whose host the current state operation runs
        self.store = None
        self.case = None
        self.by_session = {}
        self.exec_counts = collections.Counter()
        self.iterations = collections.Counter()
        self.in_flight = {}
        self.line_hits = None
        self.rng = None
        self.main_restrictions = []
        self.phase = 0
        self.last_by_actor = {}
        self.origin = {}
        self.task_worker = {}
        self.counters = collections.Counter()

    def emit(self, kind, **extra):
        now = round(self.loop.time(), 4) if self.loop else 0.0
        actor = extra.get("task") or extra.get("w")
        if kind == "sleep":
            # consecutive back-off sleeps of one worker are one event with a count
            last = self.last_by_actor.get(actor)
            if last is not None and last["k"] == "sleep" and last["delay"] == extra["delay"]:
                last["n"] += 1
                last["t_last"] = now
                return last
            extra["n"], extra["t_last"] = 1, now
        entry = {"k": kind, "t": now, "ph": self.phase, "seq": len(self.events)}
        entry.update(extra)
        self.events.append(entry)
        if actor is not None:
            self.last_by_actor[actor] = entry
        return entry


CTX = Ctx()


# ------------------------------------------------------------------------------------------------------
# naming helpers (string operations only; independent of bridged_form / setless_form)
# ------------------------------------------------------------------------------------------------------

NET_PART = re.compile(r"\.nets\.[^.]+\.[^.]+(?=\.|$)")


def class_key(name, main_restrictions):
    key = NET_PART.sub("", name)
    best = ""
    for restriction in main_restrictions:
        if (key == restriction or key.startswith(restriction + ".")) and len(restriction) > len(best):
            best = restriction
    return key[len(best) + 1:] if best else key


def worker_of_name(name):
    """Worker id a composite node was parsed for, from the trailing net variant of its name."""
    match = re.search(r"\.nets\.([^.]+)\.([^.]+)$", name)
    if not match:
        return None
    swarm, net = match.groups()
    return net if swarm == "localhost" else f"{swarm}.{net}"


# ------------------------------------------------------------------------------------------------------
# store: location -> {(object id, image or "", state)} + root flags
# ------------------------------------------------------------------------------------------------------

class Store:
    def __init__(self, spec=None):
        self.states = collections.defaultdict(set)     # location -> {(obj, state)}
        self.roots = collections.defaultdict(set)      # location -> {obj}
        for location, entries in (spec or {}).get("states", {}).items():
            for obj, state in entries:
                self.states[location].add((obj, state))
        for location, objs in (spec or {}).get("roots", {}).items():
            self.roots[location].update(objs)

    def has(self, location, obj, state):
        return (obj, state) in self.states.get(location, ())

    def add(self, location, obj, state, by):
        if (obj, state) not in self.states[location]:
            self.states[location].add((obj, state))
            CTX.emit("store", op="add", loc=location, obj=obj, state=state, by=by, w=CTX.worker)

    def remove(self, location, obj, state, by):
        if (obj, state) in self.states[location]:
            self.states[location].discard((obj, state))
            CTX.emit("store", op="remove", loc=location, obj=obj, state=state, by=by, w=CTX.worker)

    def dump(self):
        return {"states": {loc: sorted(map(list, entries)) for loc, entries in sorted(self.states.items()) if entries},
                "roots": {loc: sorted(objs) for loc, objs in sorted(self.roots.items()) if objs}}


def own_location(params_or_pool, worker_id=None):
    worker_id = CTX.worker if worker_id is None else worker_id
    path = params_or_pool if isinstance(params_or_pool, str) else params_or_pool["swarm_pool"]
    return f"{worker_id}:{path}"


def object_key(params):
    last = params["object_type"].split("/")[-1]
    object_id = params.get("object_id", params.get("vms", "?"))
    if last == "images":
        return f"{object_id}/{params['images']}"
    if last == "vms":
        return object_id
    return "net:" + params.get("nets", "?")


# ------------------------------------------------------------------------------------------------------
# in-memory backends under the real SourcedStateBackend logic
# ------------------------------------------------------------------------------------------------------

def make_backends():
    from avocado_i2n.states import setup as ss
    from avocado_i2n.states import pool

    class MemTransport:
        """Stands for QCOW2ImageTransfer: what is in which pool location."""

        @classmethod
        def show(cls, params, object=None):
            location, key = params["show_location"], object_key(params)
            CTX.emit("transport", op="show", loc=location, obj=key, w=CTX.worker)
            return sorted(state for obj, state in CTX.store.states.get(location, ()) if obj == key)

        @classmethod
        def get(cls, params, object=None):
            location, key, state = params["get_location"], object_key(params), params["get_state"]
            CTX.emit("transport", op="get", loc=location, obj=key, state=state, w=CTX.worker)
            if not CTX.store.has(location, key, state):
                raise FileNotFoundError(f"{state} of {key} not in {location}")
            CTX.store.add(own_location(params), key, state, "transport")

        @classmethod
        def set(cls, params, object=None):
            location, key, state = params["set_location"], object_key(params), params["set_state"]
            CTX.emit("transport", op="set", loc=location, obj=key, state=state, w=CTX.worker)
            CTX.store.add(location, key, state, "transport")

        @classmethod
        def unset(cls, params, object=None):
            location, key, state = params["unset_location"], object_key(params), params["unset_state"]
            CTX.emit("transport", op="unset", loc=location, obj=key, state=state, w=CTX.worker)
            CTX.store.remove(location, key, state, "transport")

        @classmethod
        def compare_chain(cls, state, cache_dir, pool_dir, params):
            return True

        @classmethod
        def check_root(cls, params, object=None):
            return object_key(params) in CTX.store.roots.get(":" + params["shared_pool"], ())

        @classmethod
        def get_root(cls, params, object=None):
            CTX.store.roots[own_location(params)].add(object_key(params))

        @classmethod
        def set_root(cls, params, object=None):
            CTX.store.roots[":" + params["shared_pool"]].add(object_key(params))

        @classmethod
        def unset_root(cls, params, object=None):
            CTX.store.roots[":" + params["shared_pool"]].discard(object_key(params))

    class LocalMixin:
        """The local (own pool) side of a backend."""

        @classmethod
        def _show(cls, params, object=None):
            key = object_key(params)
            return sorted(state for obj, state in CTX.store.states.get(own_location(params), ()) if obj == key)

        @classmethod
        def _get(cls, params, object=None):
            key, state = object_key(params), params["get_state"]
            if not CTX.store.has(own_location(params), key, state):
                raise RuntimeError(f"local get of missing {state} of {key}")

        @classmethod
        def _set(cls, params, object=None):
            CTX.store.add(own_location(params), object_key(params), params["set_state"], "door")

        @classmethod
        def _unset(cls, params, object=None):
            key, state = object_key(params), params["unset_state"]
            if not CTX.store.has(own_location(params), key, state):
                raise RuntimeError(f"local unset of missing {state} of {key}")
            CTX.store.remove(own_location(params), key, state, "door")

        @classmethod
        def check_root(cls, params, object=None):
            return object_key(params) in CTX.store.roots.get(own_location(params), ())

        @classmethod
        def get_root(cls, params, object=None):
            pass

        @classmethod
        def set_root(cls, params, object=None):
            CTX.store.roots[own_location(params)].add(object_key(params))
            CTX.emit("store", op="root+", loc=own_location(params), obj=object_key(params), by="door", w=CTX.worker)

        @classmethod
        def unset_root(cls, params, object=None):
            CTX.store.roots[own_location(params)].discard(object_key(params))
            CTX.emit("store", op="root-", loc=own_location(params), obj=object_key(params), by="door", w=CTX.worker)

    class MemSourced(LocalMixin, pool.SourcedStateBackend):
        transport = MemTransport

    class MemLocal(LocalMixin, ss.StateBackend):
        show = LocalMixin._show
        get = LocalMixin._get
        set = LocalMixin._set
        unset = LocalMixin._unset

    class MemNet(ss.StateBackend):
        @classmethod
        def show(cls, params, object=None):
            return []

        @classmethod
        def check_root(cls, params, object=None):
            return True

        @classmethod
        def get_root(cls, params, object=None):
            pass

        @classmethod
        def set_root(cls, params, object=None):
            pass

        @classmethod
        def unset_root(cls, params, object=None):
            pass

        get = set = unset = get_root

    return {"qcow2ext": MemSourced, "ramfile": MemSourced, "qcow2": MemLocal, "qcow2vt": MemLocal, "vmnet": MemNet,
            "lvm": MemLocal, "lxc": MemLocal, "btrfs": MemLocal}


# ------------------------------------------------------------------------------------------------------
# harness view of a node's state requirements (virttest Params only, not cartgraph code)
# ------------------------------------------------------------------------------------------------------

def node_state_view(params):
    """For each vm/image object of a node: get/set state, locations, scope (resolved via virttest's object_params)."""
    view = []
    for vm in params.objects("vms"):
        vm_params = params.object_params(vm)
        typed = vm_params.object_params("vms")
        object_id = vm_params.get("object_id", vm)
        entries = [(object_id, "vms", vm, typed)]
        for image in vm_params.objects("images"):
            image_typed = vm_params.object_params(image).object_params("images")
            entries.append((f"{object_id}/{image}", "images", f"{image}_{vm}", image_typed))
        for key, kind, suffix, typed in entries:
            view.append({"obj": key, "kind": kind, "suffix": suffix,
                         "get": typed.get("get_state") or "", "set": typed.get("set_state") or "",
                         "locs": (typed.get("get_location") or "").split(),
                         "pool_scope": (typed.get("pool_scope") or "").split(),
                         "unset_mode": typed.get("unset_mode") or "", "permanent": vm_params.get("permanent_vm", "no") == "yes",
                         "shared_pool": typed.get("shared_pool", ""), "swarm_pool": typed.get("swarm_pool", "")})
    return view


def location_scope(location, worker, workers):
    """own / swarm / cluster / shared of a 'wid:path' location relative to an executing worker (harness definition)."""
    wid, path = location.split(":", 1)
    if wid == "":
        return "shared"
    if wid == worker["id"]:
        return "own"
    other = workers.get(wid)
    if other is None:
        return "unknown"
    if other["gateway"] != worker["gateway"]:
        return "cluster"
    if other["host"] != worker["host"]:
        return "swarm"
    return "own"


def availability(entry, worker_id, workers, store):
    """Where a required state exists among the locations the test is instructed and allowed to use."""
    worker = workers[worker_id]
    scopes = set(entry["pool_scope"])
    candidates = list(entry["locs"])
    if "own" in scopes and entry["swarm_pool"]:
        candidates.append(f"{worker_id}:{entry['swarm_pool']}")
    found = []
    for location in candidates:
        scope = location_scope(location, worker, workers)
        if scope in scopes and store.has(location, entry["obj"], entry["get"]):
            found.append(location)
    return found


# ------------------------------------------------------------------------------------------------------
# seams
# ------------------------------------------------------------------------------------------------------

class SimSession:
    def __init__(self, host, port):
        self.address = f"{host}:{port}"

    def cmd_output(self, command, *args, **kwargs):
        return "now"

    def close(self):
        pass


def sim_wait_for_login(client, host, port, username, password, prompt, *args, **kwargs):
    return SimSession(host, port)


class SimDoor:
    """What avocado_i2n.cartgraph.node sees as aexpect.remote_door."""

    DUMP_CONTROL_DIR = "/tmp"
    pending = {}

    @staticmethod
    def set_subcontrol_parameter(control_path, key, value):
        SimDoor.pending["action"] = value
        return control_path

    @staticmethod
    def set_subcontrol_parameter_dict(control_path, key, params):
        SimDoor.pending["params"] = dict(params)
        return control_path

    @staticmethod
    def run_subcontrol(session, control_path):
        from aexpect.exceptions import ShellCmdError
        from virttest.utils_params import Params
        from avocado_i2n.states import setup as ss
        action, params = SimDoor.pending["action"], Params(SimDoor.pending["params"])
        worker_id = CTX.by_session.get(session.address)
        previous, CTX.worker = CTX.worker, worker_id
        do = "check" if action == "check" else action
        objs = []
        for entry in node_state_view(params):
            pass
        # what the request addresses (harness view over the control parameters)
        for vm in params.objects("vms"):
            vm_params = params.object_params(vm)
            object_id = vm_params.get("object_id", vm)
            for kind, typed, key in [("vms", vm_params.object_params("vms"), object_id)] + [
                    ("images", vm_params.object_params(image).object_params("images"), f"{object_id}/{image}")
                    for image in vm_params.objects("images")]:
                state = typed.get(f"{do}_state")
                if state:
                    location_key = "show_location" if do == "check" else f"{do}_location"
                    objs.append({"obj": key, "kind": kind, "state": state, "locs": (typed.get(location_key) or "").split(),
                                 "mode": typed.get(f"{do}_mode", ""), "pool_scope": typed.get("pool_scope", "")})
        origin = CTX.origin.get(current_worker(), (None, None))
        event = CTX.emit("door", action=action, w=worker_id, objs=objs, task=current_worker(), outcome="?",
                         origin=origin[0], node=origin[1], pool_filter=params.get("pool_filter"))
        try:
            if action == "check":
                ok = ss.check_states(params, env=None)
                event["outcome"] = "true" if ok else "false"
                if not ok:
                    raise ShellCmdError("control", 1, "AssertionError")
            elif action == "get":
                ss.get_states(params, env=None)
                event["outcome"] = "ok"
            elif action == "set":
                ss.set_states(params, env=None)
                event["outcome"] = "ok"
            elif action == "unset":
                ss.unset_states(params, env=None)
                event["outcome"] = "ok"
            else:
                raise ValueError(f"unknown control action {action}")
        except ShellCmdError:
            raise
        except Exception as error:
            event["outcome"] = f"error {type(error).__name__}: {error}"[:300]
            raise ShellCmdError("control", 1, "Traceback (most recent call last):\n" + traceback.format_exc()[-1500:])
        finally:
            CTX.worker = previous


def current_worker():
    try:
        task = asyncio.current_task()
    except RuntimeError:
        return None
    if task is None:
        return None
    return CTX.task_worker.get(id(task), task.get_name())


def plan_for(cls, name, worker_id, try_index, timeout=100.0):
    """Planned (status, duration, report) of one execution; deterministic in the case."""
    plan = CTX.case.get("plan", {})
    status = plan.get("default_status", "PASS")
    sequence = None
    for pattern, statuses in plan.get("by_class", {}).items():
        if pattern == cls or (pattern.startswith("re:") and re.search(pattern[3:], cls)):
            sequence = statuses
            break
    if sequence:
        status = sequence[min(try_index, len(sequence) - 1)]
    digest = hashlib.sha1(f"{plan.get('dur_seed', 0)}|{cls}|{worker_id}|{try_index}".encode()).digest()
    rnd = random.Random(digest)
    mode = plan.get("dur_mode", "heavy")
    if mode == "const":
        duration = float(plan.get("dur_const", 10))
    elif mode == "long":
        # most of the timeout, never beyond it
        duration = timeout * rnd.choice([0.55, 0.7, 0.8, 0.9, 0.95])
        if "stateless.noop" in cls:
            # the configuration step of a two-step creation: the pair stays within the timeout of the creation
            duration = 0.5
        elif cls.startswith("original."):
            duration = min(duration, timeout * 0.9 - 0.5)
    elif mode == "short":
        duration = min(timeout * 0.9, rnd.choice([0.5, 1.0, 2.0, 3.0, 5.0, 8.0, 13.0, 20.0]) * rnd.choice([1.0, 1.0, 1.1]))
    elif mode == "tied":
        duration = min(timeout * 0.9, rnd.choice([1.0, 2.0, 5.0, 5.0, 10.0]) + rnd.choice([0, 0, 0, 1e-3, -1e-3]))
    else:
        # heavy tailed within (0, timeout): many short, a few close to the timeout
        duration = min(timeout * 0.98, max(0.01, timeout * (rnd.random() ** 4) + rnd.choice([0.0, 0.0, 0.05])))
        if rnd.random() < 0.25:
            duration = rnd.choice([1.0, 2.0, 5.0, 0.1 * timeout])
        # the two steps of an object creation together stay within the timeout of the creation (a waiting worker gives up
        # after one timeout of the occupied test: anything longer is an overrun by the code's own definition)
        if "stateless.noop" in cls:
            duration = min(duration, 0.04 * timeout)
        elif cls.startswith("original."):
            duration = min(duration, 0.9 * timeout)
    return status, round(duration, 4)


async def sim_run_test_task(self, node):
    """Replacement of TestRunner.run_test_task: what executing a test does, as far as the traversal can tell."""
    from virttest.utils_params import Params
    worker = node.started_worker
    if worker is None:
        raise AssertionError(f"{node} was not properly started by any worker")
    worker_id = worker.id
    name = node.params["name"]
    uid = node.id_test.uid
    cls = class_key(name, CTX.main_restrictions)
    params = Params(dict(node.params))
    view = node_state_view(params)
    workers = CTX.workers
    requirements = []
    for entry in view:
        if entry["get"] and entry["get"] not in ROOTS:
            found = availability(entry, worker_id, workers, CTX.store)
            everywhere = sorted(loc for loc, entries in CTX.store.states.items() if (entry["obj"], entry["get"]) in entries)
            requirements.append({"obj": entry["obj"], "kind": entry["kind"], "state": entry["get"], "locs": entry["locs"],
                                 "pool_scope": entry["pool_scope"], "found": found, "anywhere": everywhere,
                                 "permanent": entry["permanent"]})
    try_index = CTX.exec_counts[cls]
    CTX.exec_counts[cls] += 1
    try:
        timeout = float(params.get("test_timeout", 3600))
    except ValueError:
        timeout = 3600.0
    status, duration = plan_for(cls, name, worker_id, try_index, timeout)
    withhold_re = CTX.case.get("plan", {}).get("withhold_re")
    withheld = cls in CTX.case.get("plan", {}).get("withhold", []) or bool(withhold_re and re.search(r"(^|\.)" + re.escape(withhold_re) + r"(\.|$)", cls))
    placeholder = any(r.get("status") == "UNKNOWN" for r in node.results)
    exec_id = len([e for e in CTX.events if e["k"] == "exec_start"])
    # the connection the real run_test_task hands to the spawner of a remote worker
    session_worker = None
    if params.get("nets_spawner") == "remote":
        try:
            session_worker = CTX.by_session.get(getattr(worker.get_session(), "address", None), "unknown")
        except Exception as error:
            session_worker = f"error {type(error).__name__}"
    CTX.emit("exec_start", id=exec_id, w=worker_id, task=current_worker(), name=name, cls=cls, uid=uid, prefix=node.prefix,
             session_w=session_worker,
             req=requirements, sets=[{"obj": e["obj"], "state": e["set"], "kind": e["kind"], "unset_mode": e["unset_mode"]}
                                     for e in view if e["set"]],
             nets=params.get("nets"), nets_host=params.get("nets_host"), nets_gateway=params.get("nets_gateway"),
             nets_spawner=params.get("nets_spawner"), nets_shell_host=params.get("nets_shell_host"),
             nets_shell_port=params.get("nets_shell_port"),
             source_params={key: params[key] for key in params if key.startswith("nets_") and key.count("_") >= 2
                            and any(key.endswith("_" + wid) for wid in workers)},
             pool_scope=params.get("pool_scope"), max_tries=params.get("max_tries"),
             max_concurrent_tries=params.get("max_concurrent_tries"), test_timeout=params.get("test_timeout"),
             type=params.get("type"), vm_action=params.get("vm_action"), vms=params.get("vms"),
             planned=status, duration=duration, try_index=try_index, placeholder=placeholder,
             has_objects=len(node.objects) > 0, is_clone_source=len(node.cloned_nodes) > 0,
             extra={key: params.get(key) for key in CTX.case.get("watch_params", [])})
    missing = [] if CTX.case.get("ignore_requirements") else [r for r in requirements if not r["found"]]
    previous, CTX.worker = CTX.worker, worker_id
    try:
        if missing:
            status = "ERROR"
        else:
            # the test's own state retrieval makes the states locally available
            for requirement in requirements:
                pool_path = next((e["swarm_pool"] for e in view if e["obj"] == requirement["obj"]), "")
                if pool_path:
                    CTX.store.add(f"{worker_id}:{pool_path}", requirement["obj"], requirement["state"], "test-get")
    finally:
        CTX.worker = previous
    await asyncio.sleep(duration)
    previous, CTX.worker = CTX.worker, worker_id
    try:
        if status in OK_STATUSES:
            for entry in view:
                if not entry["set"] or not entry["swarm_pool"]:
                    continue
                location = f"{worker_id}:{entry['swarm_pool']}"
                if entry["set"] in ROOTS:
                    CTX.store.roots[location].add(entry["obj"])
                else:
                    CTX.store.roots[location].add(entry["obj"])
                    CTX.store.add(location, entry["obj"], entry["set"], "test-set")
    finally:
        CTX.worker = previous
    if not withheld:
        test_id = type("SimTestID", (), {"uid": uid, "name": name})()
        self.job.result.tests.append({"name": test_id, "status": status, "time_elapsed": "1", "logdir": "."})
    CTX.emit("exec_end", id=exec_id, w=worker_id, name=name, cls=cls, uid=uid, status=status, reported=not withheld,
             missing=[[r["obj"], r["state"]] for r in missing])
    return status not in ["ERROR", "FAIL"]


class AsyncioProxy:
    """The `asyncio` name inside cartgraph.graph: records every back-off sleep of the traversal loop."""

    def __getattr__(self, name):
        return getattr(asyncio, name)

    @staticmethod
    async def sleep(delay, *args, **kwargs):
        CTX.emit("sleep", task=current_worker(), delay=delay)
        await asyncio.sleep(delay, *args, **kwargs)


# ------------------------------------------------------------------------------------------------------
# suite / graph / run
# ------------------------------------------------------------------------------------------------------

def use_suite(path=None):
    """Point the code under test at a suite; the overwrite files in $HOME hard-code the suite path."""
    from avocado_i2n import params_parser as param
    from avocado.core.settings import settings
    for name in ("tests", "vms", "objects"):
        try:
            os.unlink(os.path.join(os.environ["HOME"], f"avocado_overwrite_{name}.cfg"))
        except FileNotFoundError:
            pass
    if path is None:
        path = param._devel_tp_folder
    settings.update_option("i2n.common.suite_path", path)
    return path


def install_seams():
    from avocado_i2n.cartgraph import node as node_module, graph as graph_module, worker as worker_module
    from avocado_i2n.plugins import runner as runner_module
    from avocado_i2n.states import setup as ss
    node_module.door = SimDoor
    worker_module.remote.wait_for_login = sim_wait_for_login
    runner_module.TestRunner.run_test_task = sim_run_test_task
    runner_module.SpawnerDispatcher = mock.MagicMock()
    graph_module.asyncio = AsyncioProxy()
    worker_module.TestWorker.start = lambda self: True
    worker_module.TestWorker._session_cache = {}
    ss.BACKENDS = make_backends()
    if not getattr(node_module.TestNode, "_verif_wrapped", False):
        node_module.TestNode._verif_wrapped = True
        original_ready = node_module.TestNode.is_cleanup_ready

        def is_cleanup_ready(self, worker):
            if self.is_shared_root():
                CTX.iterations[worker.id] += 1
                budget = CTX.case.get("max_iterations", 200000)
                if CTX.iterations[worker.id] > budget:
                    raise IterationBudget(f"worker {worker.id} exceeded {budget} loop iterations")
            return original_ready(self, worker)
        node_module.TestNode.is_cleanup_ready = is_cleanup_ready

        original_traverse = graph_module.TestGraph.traverse_node
        original_reverse = graph_module.TestGraph.reverse_node

        async def traverse_node(self, test_node, worker, params):
            CTX.task_worker[id(asyncio.current_task())] = worker.id
            CTX.origin[worker.id] = ("traverse", test_node.params["name"])
            try:
                await original_traverse(self, test_node, worker, params)
            finally:
                CTX.origin.pop(worker.id, None)

        async def reverse_node(self, test_node, worker, params):
            CTX.task_worker[id(asyncio.current_task())] = worker.id
            CTX.origin[worker.id] = ("reverse", test_node.params["name"])
            CTX.counters["reverse_calls"] += 1
            try:
                await original_reverse(self, test_node, worker, params)
            finally:
                CTX.origin.pop(worker.id, None)
        graph_module.TestGraph.traverse_node = traverse_node
        graph_module.TestGraph.reverse_node = reverse_node

        original_expand = graph_module.TestGraph.get_and_parse_nodes_from_flat_node_and_object

        def expand(self, test_node, test_object, *args, **kwargs):
            got, parsed = original_expand(self, test_node, test_object, *args, **kwargs)
            # when a selected (flat) test is expanded for a worker: which composite tests it became
            CTX.emit("expand", flat=test_node.params["name"], net=test_object.long_suffix,
                     children=[n.params["name"] for n in list(got) + list(parsed)])
            return got, parsed
        graph_module.TestGraph.get_and_parse_nodes_from_flat_node_and_object = expand


class IterationBudget(Exception):
    pass


def build_graph(case):
    """Parse the graph the way the plugins do: lazily (loader + runner) or eagerly (parse_object_trees)."""
    from avocado_i2n.cartgraph import TestGraph
    params = dict(case.get("params", {}))
    params["nets"] = case["nets"]
    if case.get("slots") is not None:
        params["slots"] = case["slots"]
    vm_strs = case["vm_strs"]
    if case.get("eager"):
        graph = TestGraph.parse_object_trees(None, case["restriction"], case.get("prefix", ""), dict(vm_strs), params)
    else:
        graph = TestGraph()
        graph.restrs.update(vm_strs)
        nodes = TestGraph.parse_flat_nodes(case["restriction"], params)
        for node in nodes:
            node.update_restrs(vm_strs)
        graph.new_nodes(nodes)
        graph.parse_shared_root_from_object_roots(params)
        graph.new_workers(TestGraph.parse_workers(params))
    return graph, params


def worker_table(graph):
    table = {}
    for worker in graph.workers.values():
        table[worker.id] = {"id": worker.id, "swarm": worker.swarm_id, "gateway": worker.params["nets_gateway"],
                            "host": worker.params["nets_host"], "spawner": worker.params["nets_spawner"],
                            "shell_host": worker.params["nets_shell_host"], "shell_port": worker.params["nets_shell_port"],
                            "restrs": dict(worker.restrs), "params": {k: v for k, v in worker.params.items() if k.startswith("nets_")}}
    return table


def make_runner(params, previous_results=None, results_file_dir=None):
    from avocado_i2n.plugins.runner import TestRunner
    job = mock.MagicMock()
    job.logdir = "."
    job.timeout = 6000
    job.result = mock.MagicMock()
    job.result.tests = []
    job.config = {"param_dict": params}
    runner = TestRunner()
    runner.job = job
    runner.status_server = job
    if results_file_dir is not None and params.get("replay"):
        # the previous job's results reach the runner the way they do in a real run: through its results.json
        job.config["datadir.paths.logs_dir"] = results_file_dir
        os.makedirs(os.path.join(results_file_dir, params["replay"]), exist_ok=True)
        with open(os.path.join(results_file_dir, params["replay"], "results.json"), "w") as fd:
            json.dump({"tests": list(previous_results or [])}, fd)
        runner.previous_results = []
        runner.results_from_previous_jobs()
    else:
        runner.previous_results = list(previous_results or [])
    return runner


def snapshot_nodes(graph):
    from virttest.utils_params import Params
    nodes = []
    previous = list(getattr(getattr(graph, "runner", None), "previous_results", None) or [])
    for node in graph.nodes:
        name = node.params["name"]
        view = [] if node.is_flat() else node_state_view(Params(dict(node.params)))
        nodes.append({"name": name,
                      "gets": [[e["obj"], e["get"], e["kind"]] for e in view if e["get"] and e["get"] not in ROOTS],
                      "sets": [[e["obj"], e["set"], e["kind"], e["unset_mode"]] for e in view if e["set"]],
                      "permanent_objs": [e["obj"] for e in view if e["permanent"]],
                      "max_tries": node.params.get("max_tries"), "test_timeout": node.params.get("test_timeout"),
                      "pool_scope": node.params.get("pool_scope"), "spawner": node.params.get("nets_spawner"),
                      "n_objects": len(node.objects), "prefix": node.prefix, "cls": class_key(name, CTX.main_restrictions),
                      "worker": worker_of_name(name), "flat": node.is_flat(), "clone_source": len(node.cloned_nodes) > 0,
                      "shared_root": node.is_shared_root(), "object_root": node.params.get("object_root"),
                      "results": [r["status"] for r in node.results], "result_names": [r.get("name") for r in node.results],
                      "result_previous": [any(r is p for p in previous) for r in node.results],
                      "incompatible_workers": sorted(node.incompatible_workers),
                      "started_worker": node.started_worker.id if node.started_worker else None,
                      "finished_worker": node.finished_worker.id if node.finished_worker else None,
                      "setup": [[p.params["name"], sorted(o.long_suffix for o in objs)] for p, objs in node.setup_nodes.items()],
                      "cleanup": [c.params["name"] for c in node.cleanup_nodes],
                      "vms": node.params.get("vms"), "bridged": [b.params["name"] for b in node.bridged_nodes]})
    return nodes


def run_traversal(graph, params, case, runner):
    """One complete traversal by all workers on a fresh virtual loop; returns the outcome description."""
    loop = VirtualLoop()
    asyncio.set_event_loop(loop)
    CTX.loop = loop
    graph.runner = runner
    for worker in graph.workers.values():
        worker.spawner = object()
        CTX.by_session[f"{worker.params['nets_shell_host']}:{worker.params['nets_shell_port']}"] = worker.id
    slot_workers = sorted(graph.workers.values(), key=lambda w: w.params["name"])
    outcome = {"exception": None, "vtime": None, "worker_errors": {}}

    async def main():
        delays = case.get("start_delays") or {}

        async def traverse(worker):
            # a worker whose environment came up later than the others joins the traversal later
            if delays.get(worker.id):
                await asyncio.sleep(delays[worker.id])
            return await graph.traverse_object_trees(worker, params)

        tasks = [loop.create_task(traverse(worker), name=worker.id) for worker in slot_workers]
        interrupt_at = case.get("interrupt_at") if CTX.phase == 0 else None
        if interrupt_at is not None:
            def interrupt():
                CTX.emit("interrupt")
                for task in tasks:
                    task.cancel()
            loop.call_later(interrupt_at, interrupt)
        results = await asyncio.gather(*tasks, return_exceptions=True)
        for worker, result in zip(slot_workers, results):
            CTX.emit("worker_done", w=worker.id, error=None if result is None else f"{type(result).__name__}: {result}"[:500])
            if isinstance(result, BaseException):
                outcome["worker_errors"][worker.id] = {"type": type(result).__name__, "message": str(result)[:500],
                                                       "trace": "".join(traceback.format_exception(result))[-2500:]}

    try:
        loop.run_until_complete(main())
    except Deadlock as error:
        outcome["exception"] = {"type": "Deadlock", "message": str(error)}
    except IterationBudget as error:
        outcome["exception"] = {"type": "IterationBudget", "message": str(error)}
    except BaseException as error:
        outcome["exception"] = {"type": type(error).__name__, "message": str(error)[:500], "trace": traceback.format_exc()[-2500:]}
    finally:
        outcome["vtime"] = round(loop.time(), 4)
        try:
            pending = [t for t in asyncio.all_tasks(loop) if not t.done()]
            for task in pending:
                task.cancel()
            if pending:
                loop.run_until_complete(asyncio.gather(*pending, return_exceptions=True))
        except BaseException:
            pass
        loop.close()
    return outcome


def reset_ctx(case):
    CTX.__init__()
    CTX.case = case
    CTX.store = Store(case.get("store"))
    SimDoor.pending = {}


def run_case(case):
    """Entry point for vlib.par children: returns a JSON-able record of one simulated run."""
    from avocado_i2n import params_parser as param
    reset_ctx(case)
    scratch = None
    if case.get("suite_spec"):
        import tempfile
        from vlib import suitegen
        scratch = tempfile.mkdtemp(prefix="verif-suite-")
        suitegen.write_suite(case["suite_spec"], scratch, param._devel_tp_folder)
    suite_path = use_suite(scratch or case.get("suite_path"))
    install_seams()
    CTX.main_restrictions = param.all_restrictions()
    record = {"phases": []}
    results_dir = None
    try:
        replay_run = case.get("replay_run")
        phases = 2 if case.get("interrupt_at") is not None or replay_run else 1
        for phase in range(phases):
            CTX.phase = phase
            CTX.exec_counts = collections.Counter() if phase and not replay_run else CTX.exec_counts
            CTX.iterations = collections.Counter()
            if phase == 1 and replay_run:
                # second job replaying the first one: possibly another worker set, other settings, pools partly wiped
                import tempfile
                results_dir = tempfile.mkdtemp(prefix="verif-results-")
                first = record["phases"][0]
                case["first_run"] = {"nets": case["nets"], "params": dict(case.get("params", {}))}
                case["previous_results"] = [{"name": r["name"], "status": r["status"], "time_elapsed": 1.0} for r in first["job_results"]]
                case["nets"] = replay_run.get("nets", case["nets"])
                kept = {k: v for k, v in case.get("params", {}).items() if k not in replay_run.get("drop_params", [])}
                case["params"] = {**kept, **replay_run.get("params", {}), "replay": "previous-job"}
                case.pop("start_delays", None)
                wipe = replay_run.get("wipe")
                for location in list(CTX.store.states):
                    if wipe == "own" and not location.startswith(":"):
                        CTX.store.states[location].clear()
                    elif isinstance(wipe, list):
                        CTX.store.states[location] = {entry for entry in CTX.store.states[location] if entry[1] not in wipe}
            graph, params = build_graph(case)
            CTX.workers = worker_table(graph)
            if phase == 0:
                seed_permanent_states(graph, case)
            runner = make_runner(params, case.get("previous_results"), results_dir)
            store_before = CTX.store.dump()
            outcome = run_traversal(graph, params, case, runner)
            try:
                verdict_ok = bool(runner.all_results_ok())
            except Exception as error:
                verdict_ok = f"exception {type(error).__name__}: {error}"
            record["phases"].append({
                "outcome": outcome, "workers": CTX.workers, "nodes": snapshot_nodes(graph), "store_before": store_before,
                "store_after": CTX.store.dump(), "iterations": dict(CTX.iterations),
                "job_results": [{"name": t["name"].name, "uid": t["name"].uid, "status": t["status"]} for t in runner.job.result.tests],
                "all_results_ok": verdict_ok, "params": params})
    except BaseException as error:
        record["setup_exception"] = {"type": type(error).__name__, "message": str(error)[:800], "trace": traceback.format_exc()[-3000:]}
    record["events"] = CTX.events
    record["main_restrictions"] = CTX.main_restrictions
    import shutil
    if scratch:
        shutil.rmtree(scratch, ignore_errors=True)
    if results_dir:
        shutil.rmtree(results_dir, ignore_errors=True)
    return record


def seed_permanent_states(graph, case):
    """Externally provided states of permanent vms are taken as given: present in every worker's own pool."""
    if case.get("no_permanent_seed"):
        return
    for state_spec in case.get("permanent_states", []):
        for worker_id in CTX.workers:
            CTX.store.states[f"{worker_id}:{state_spec['pool']}"].add((state_spec["obj"], state_spec["state"]))
