"""Virtual-time asyncio loop: time() is a counter, waiting advances the counter instead of blocking."""

import asyncio


class Deadlock(Exception):
    """Every task waits and no timer is pending: nothing can ever wake the loop up."""


class VirtualLoop(asyncio.SelectorEventLoop):

    def __init__(self):
        super().__init__()
        self._vtime = 0.0
        self.idle_selects = 0
        real_select = self._selector.select

        def select(timeout=None):
            events = real_select(0)
            if events:
                return events
            if timeout is None:
                # nothing ready, nothing scheduled
                raise Deadlock("all tasks are waiting and no timer is pending")
            if timeout > 0:
                self._vtime += timeout
                self.idle_selects += 1
            return events

        self._selector.select = select

    def time(self):
        return self._vtime
